#!/bin/bash
# Offline setup: everything comes from files on disk (/opt/veriftools/wheels).
# - hypothesis + numpy + the repository itself are expected in /venv (editable install of /repo);
#   hypothesis is installed from the wheelhouse when it is missing.
# - optional add-ons (jsonschema for evidence validation, atheris for the C09/C12 fuzz campaigns)
#   go to /verif/.deps (ignored by git); the checks work without them and say so in the evidence.
cd "$(dirname "$0")" || exit 2
export PIP_NO_INDEX=1
PY=${VERIF_PYTHON:-/venv/bin/python}
WH=/opt/veriftools/wheels
mkdir -p .deps evidence replays

if ! "$PY" -c "import hypothesis" 2>/dev/null; then
  "$PY" -m pip install --quiet --no-index --find-links "$WH" hypothesis || \
  "$PY" -m pip install --quiet --no-index --find-links "$WH" --target .deps hypothesis
fi
for pkg in jsonschema atheris; do
  if ! PYTHONPATH=.deps "$PY" -c "import $pkg" 2>/dev/null; then
    "$PY" -m pip install --quiet --no-index --find-links "$WH" --target .deps "$pkg" \
      >/dev/null 2>&1 || echo "setup: optional package $pkg not installed"
  fi
done

PYTHONPATH="$PWD:$PWD/.deps" "$PY" -W ignore - <<'EOF'
import sys, os
sys.path.insert(0, os.environ.get("VERIF_REPO", "/repo"))
import hypothesis, numpy, robotools
print("setup ok: hypothesis", hypothesis.__version__, "numpy", numpy.__version__, "robotools from", robotools.__file__)
EOF
