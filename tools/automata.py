#!/usr/bin/env python3
"""Writes seeded/<id>/meta.json for directories that lack one, from notes.md and an evaluation log of tools/seeded.py.
usage: tools/automata.py <log file> [history note as 'ID=text' ...]"""
import json, os, re, sys
ROOT = os.path.dirname(os.path.dirname(os.path.abspath(__file__)))
log = open(sys.argv[1]).read()
hist = dict(a.split("=", 1) for a in sys.argv[2:])
blocks = re.split(r"\n(?=CAUGHT |MISSED )", "\n" + log)
for b in blocks:
    m = re.match(r"\s*(CAUGHT|MISSED) (\S+):", b)
    if not m:
        continue
    name = m.group(2)
    d = os.path.join(ROOT, "seeded", name)
    caught = re.findall(r"^\s+(C\d\d): exit1", b, re.M)
    notes = open(os.path.join(d, "notes.md")).read() if os.path.exists(os.path.join(d, "notes.md")) else ""
    lines = [l.strip(" -*#") for l in notes.splitlines() if l.strip(" -*#")]
    what = next((l for l in lines if re.search(r"chang|replac|becomes|now |moved|instead", l, re.I) and len(l) > 30), lines[1] if len(lines) > 1 else "")
    needs = next((l for l in lines if re.search(r"trigger|manifest|needs|only when|requires", l, re.I) and len(l) > 30), "see notes.md")
    path = os.path.join(d, "meta.json")
    meta = json.load(open(path)) if os.path.exists(path) else {}
    meta.update({
        "property": re.match(r"(C\d\d)", name).group(1),
        "author": meta.get("author", "independent sub-agent (saw only the property text and a scratch worktree of /repo)"),
        "change": meta.get("change", what[:400]),
        "needs_to_manifest": meta.get("needs_to_manifest", needs[:400]),
        "confirmed": "tools/seeded.py: patch applies to a scratch copy of /repo, the repository's 148 tests still pass, demo.py passes on the unchanged tree and fails on the changed one",
        "checks": caught or meta.get("checks", []),
        "caught_by_quick_tier": caught or meta.get("caught_by_quick_tier", []),
    })
    if name in hist:
        meta["history"] = hist[name]
    json.dump(meta, open(path, "w"), indent=1)
    print(name, caught)
