#!/usr/bin/env python3
"""Prints the markdown table of DESIGN.md 11.4 from seeded/*/meta.json; with --write replaces the table in DESIGN.md."""
import json, os, re, sys
ROOT = os.path.dirname(os.path.dirname(os.path.abspath(__file__)))


def cell(x, n=230):
    x = " ".join(str(x).split()).replace("|", "/")
    return x[:n]


def key(name):
    m = re.match(r"(C\d\d)_([a-z]?)(\d+)", name)
    return (m.group(1), m.group(2), int(m.group(3)))


rows = ["| change | what it does | needs | caught by (quick) | history |", "|---|---|---|---|---|"]
for name in sorted(os.listdir(os.path.join(ROOT, "seeded")), key=key):
    p = os.path.join(ROOT, "seeded", name, "meta.json")
    if not os.path.exists(p):
        continue
    m = json.load(open(p))
    rows.append(f"| {name} | {cell(m.get('change', ''))} | {cell(m.get('needs_to_manifest', ''))} | {', '.join(m.get('caught_by_quick_tier', []))} | {cell(m.get('history', ''), 400)} |")
table = "\n".join(rows)
if "--write" in sys.argv:
    path = os.path.join(ROOT, "DESIGN.md")
    s = open(path).read()
    a = s.index("| change | what it does | needs | caught by (quick) | history |")
    b = s.index("\n\n", a)
    open(path, "w").write(s[:a] + table + s[b:])
    print(len(rows) - 2, "rows written")
else:
    print(table)
