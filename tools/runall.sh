#!/bin/bash
# runs every registered check of one tier; prints one line per check
cd "$(dirname "$0")/.." || exit 2
tier=${1:-quick}
rc=0
for id in C01 C02 C03 C04 C05 C06 C07 C08 C09 C10 C11 C12 C13 C14 C15 C16 C17 C18 C19 C20; do
  out=$(./check $id $tier 2>&1); code=$?
  echo "$id exit=$code $(echo "$out" | grep -E "OK|VIOLATION|HARNESS" | head -2 | cut -c1-160)"
  [ $code -ne 0 ] && rc=1
done
exit $rc
