#!/usr/bin/env python3
"""Regenerates /verif/MANIFEST.json from the table below and the property modules that exist."""
import json
import os

ROOT = os.path.dirname(os.path.dirname(os.path.abspath(__file__)))

# id -> (technique, level text, level note, design ref)
TABLE = {
    "C01": (
        "model-based PBT: generated operation programs, independent worklist interpreter as oracle",
        "Generated programs of aspirate/dispense/transfer/distribute on generated labware sets are run through the real EvoWorklist/FluentWorklist; after every operation an independent interpreter of the Tecan record format replays list(worklist) from the initial contents and must reproduce Labware.volumes (two-decimal rounding bound) and, for liquid of known origin, Labware.composition; record addressing is decoded with an independent device numbering. Exploration: thousands of programs per run, no proof.",
        "Trusts the harness's reading of the Tecan worklist format (vf/gwl.py) as quoted in the repository docstrings; no robot available.",
        "DESIGN.md §5 C01, §4.1",
    ),
    "C02": (
        "stateful PBT: generated histories incl. refused operations against an exact rational reference model with three-valued limit decisions",
        "Histories of add/remove/aspirate/dispense/transfer/distribute/evo_aspirate/evo_dispense (about half constructed to be refused, incl. exact-limit, one-ulp-beyond, huge and inf volumes) are executed on real Labware objects; after every call the wells are checked against the limits, the outcome (accept / VolumeOverflowError / VolumeUnderflowError) against an exact model, and the offending well for being unchanged. Exploration.",
        "Three-valued expectation: in the one-ulp zone where float rounding decides both outcomes are allowed.",
        "DESIGN.md §5 C02, §4.2",
    ),
    "C03": (
        "fault-sequence PBT: generated programs whose last operation is refused at a chosen sub-step; interpreter replay of the records and of the file written by __exit__",
        "Programs of successful worklist operations followed by one operation built to fail (underflow, overflow, oversized step without auto_split, late-detected invalid argument) run inside `with Worklist(path)`; after every operation and after the failure the records (and the saved file) are replayed by the independent interpreter from the initial contents: no well leaves [min,max], no step exceeds max_volume. Exploration.",
        "Trusts vf/gwl.py; volumes on a 0.01 grid so that the replay is exact.",
        "DESIGN.md §5 C03",
    ),
    "C04": (
        "stateful PBT: generated add/remove histories against an exact per-real-well reference model",
        "Histories of accepted add/remove (direct and via worklist aspirate/dispense on both devices) with every well/volume argument shape on every geometry class are compared after each call with an independent model (explicit column-major pairing, trough aliasing by id parsing); exact equality for dyadic volumes, 1e-9 relative otherwise; untouched wells bit-identical. Exploration.",
        "Model flattening/aliasing written independently of numpy.flatten and Labware.indices.",
        "DESIGN.md §5 C04",
    ),
    "C05": (
        "stateful PBT: generated mixing programs against an exact rational mixing model + conservation/normalisation invariants",
        "Programs of transfer/distribute/dispense-with-composition/aspirate on labs with all naming configurations; after every step fractions are finite, in [0,1], sum to 1 in non-empty wells, equal the rational volume-weighted model per component name, are untouched by removals, and component totals are conserved by transfers. Exploration.",
        "Only liquid of known composition is introduced (as the property states).",
        "DESIGN.md §5 C05",
    ),
    "C06": (
        "exhaustive grid + PBT + coverage-guided fuzzing (atheris, thorough): closed-form oracle (count, bounds, sum) for partition_volume and for the A/D pairs of real transfers",
        "partition_volume is evaluated on a dense enumerated (volume, max_volume) grid incl. exact multiples, +-0.01 and nextafter neighbours and non-integer max_volume; real transfers on both devices are decoded and each requested triple must appear as exactly ceil(v/M) pairs with 0<step<=M summing to v; auto_split=False must raise InvalidOperationError; R records never plan more multi-dispenses than fit. Exploration with an exhaustively enumerated finite grid.",
        "Step-count rule evaluated in rationals with a 1e-12 relative slack at exact multiples.",
        "DESIGN.md §5 C06",
    ),
    "C07": (
        "PBT with metamorphic relations (permutation of triples, partition modes) + record-stream grammar oracle",
        "One generated transfer per case (all argument shapes, wash schemes, partition modes, DiTi, kwargs, both devices); the record stream is parsed independently: A immediately followed by matching D and the requested tip action, flows per (source,destination) equal the request, equal under permutation and partition mode, B; after split column groups; malformed calls (length mismatch, negative volume) raise. Exploration.",
        "Break-record rule checked as: the record following the last group of a split column is `B;`.",
        "DESIGN.md §5 C07",
    ),
    "C08": (
        "exhaustive enumeration of geometries x wells against the closed-form numbering + PBT for non-existent ids",
        "Every plate geometry rows 1..26 x columns 1..99(+100,120) and trough geometry 1..26 x 1..24 (thorough: all; quick: all small + seeded sample + extremes): positions of both devices equal the formula and form bijections; wells/indices/positions/make_well_array/make_well_index_dict agree; emitted A/D position fields equal the formula; operations naming non-existent ids raise and emit no record for them. Exhaustive over the stated finite space in the thorough tier.",
        "Closed formula implemented independently in the harness.",
        "DESIGN.md §5 C08",
    ),
    "C09": (
        "PBT + coverage-guided fuzzing (atheris, thorough) with an independent record parser and three-valued accept/reject expectation",
        "Generated argument tuples for every record-emitting method (valid, one-invalid-field, multi-invalid) are sent to the real worklist; accepted calls must parse (field count/grammar) and decode to exactly the supplied arguments, calls with an unrepresentable argument listed by the property must raise and append nothing. Exploration.",
        "MUST_REJECT only for the invalidities the property lists; undetermined inputs are EITHER (DESIGN §9).",
        "DESIGN.md §5 C09",
    ),
    "C10": (
        "exhaustive enumeration (all sequences <=3 over 16 tip symbols, all 255 subsets in several orders/representations) against the bit-mask formula",
        "Every enumerated tip selection is passed through aspirate_well/dispense_well/aspirate/dispense/transfer/evo_aspirate/evo_dispense/evo_wash; mask field == OR of 2^(n-1); Tip.Any -> empty; invalid members raise and append nothing; transfer pairs carry equal masks; EVO commands: mask and per-tip volume slots. Exhaustive over the stated finite space.",
        "EVO commands with repeated tips: either rejected or consistent (decided by C13).",
        "DESIGN.md §5 C10",
    ),
    "C11": (
        "stateful PBT: generated operation programs with history-prefix, snapshot and label invariants checked after every step",
        "Programs mixing add/remove/aspirate/dispense/transfer/distribute (zero volumes, all-zero transfers, splits, same-labware, labels present/absent): after every successful operation the previous history is a prefix, the number of new entries per labware is as stated, newest entry == volumes, label == operation label (+LVH note whose count equals the extra A/D pairs counted from the records), earlier arrays never change, report lists the same entries. Exploration.",
        "LVH count derived from the emitted records, not from the implementation's counter.",
        "DESIGN.md §5 C11",
    ),
    "C12": (
        "exhaustive enumeration (all subsets of all geometries <=14 wells; single/empty/full for all geometries) + PBT + atheris: decode(encode(x)) == x with an independent decoder",
        "evo_get_selection / evo_make_selection_array / the selection argument of evo_aspirate are decoded by an independent implementation of the EVOware rule; decode must return the dimensions and exactly the selected wells; length, character range and zero padding are checked; injectivity counted. Exhaustive for the enumerated part.",
        "Decoder written from the rule in the property statement.",
        "DESIGN.md §5 C12",
    ),
    "C13": (
        "PBT with three-valued accept/reject expectation; independent decoder of B;Aspirate/Dispense/Wash commands vs. Labware tracking",
        "Generated evo_aspirate/evo_dispense calls (well/tip order, repeats, per-tip volumes, grid/site/arm ranges) and evo_wash parameter tuples: an accepted command, decoded by EVOware's ascending tips <-> ascending wells rule, must change each well exactly as Labware.volumes did and carry liquid class, arm, grid, site-1; inexpressible calls must be rejected with nothing appended. Exploration.",
        "Calls that are neither clearly valid nor listed as invalid are EITHER: accepted-and-consistent or rejected.",
        "DESIGN.md §5 C13",
    ),
    "C14": (
        "PBT: generated planning requests; rational re-computation of concentrations and budgets; execution via to_worklist compared with composition tracking",
        "Generated (xmin,xmax,R,C,stock,mode,vmax,min_transfer) requests: every returned plan is checked for whole-microlitre volumes within [min_transfer, vmax], source ordering, per-column volume budget, concentrations in exact arithmetic, v_stock/v_diluent; a sample is executed on both devices and the tracked composition must give the reported concentrations; unplannable requests must raise ValueError. Exploration.",
        "Execution uses fresh sufficiently large troughs/plates as the property states.",
        "DESIGN.md §5 C14",
    ),
    "C15": (
        "exhaustive over 384 shapes + PBT: round trips, closed-form geometry, permutation checks",
        "All shapes 1..16 x 1..24: rotate_cw maps (r,c)->(c,R-1-r), ccw inverse, four rotations identity; shift adds anchor offset, unshift inverse, construction refused iff it does not fit; randomizer is a seed-determined permutation with inverse, row/column modes keep row/column; all methods keep the argument's shape (1-D, 2-D). Exhaustive for full-plate arrays, generated for sub-arrays/anchors/seeds.",
        "Ids parsed by the harness.",
        "DESIGN.md §5 C15",
    ),
    "C16": (
        "differential PBT: the same generated program on EvoWorklist and FluentWorklist (and BaseWorklist)",
        "Generated programs (incl. refused operations) are executed on two independent copies of the lab with both devices; after every operation volumes, compositions, histories are bit-identical, exception classes agree, records are string-identical except trough position fields; BaseWorklist refuses positioned operations without emitting A/D/R. Exploration.",
        "Trough position fields located with the independent record parser.",
        "DESIGN.md §5 C16",
    ),
    "C17": (
        "PBT round trip: bytes on disk == CRLF-joined Latin-1 records, for generated record lists, pre-existing files and save paths",
        "Generated record lists (real calls + arbitrary Latin-1 strings), pre-existing files (absent/shorter/longer), str/Path, explicit save, auto-save on normal and exceptional exit, repeated saves: file bytes equal the oracle encoding, reading back returns the records; non-.gwl names refused without creating a file; `with` starts empty; str(worklist) shows the records. Exploration.",
        "Per-case temporary directory removed after the case.",
        "DESIGN.md §5 C17",
    ),
    "C18": (
        "PBT + small exhaustive sub-space + coverage-guided fuzzing (atheris, thorough): multiset/ordering validity predicate over partition_by_column output; truth table of optimize_partition_by",
        "Generated triple lists (ties, repeats, rows A..Z, columns 1..99): output triples == input as multiset, one column per group on the partition side, groups ascending by column, rows non-decreasing; optimize_partition_by: full truth table for trough/plate x mode, invalid names raise ValueError. Exhaustive for all lists of length <=3 over a 2x3 grid.",
        "Validity predicate (many correct outputs for ties).",
        "DESIGN.md §5 C18",
    ),
    "C19": (
        "exhaustive enumeration of (n, len, representation) + PBT + coverage-guided fuzzing (atheris, thorough) against the closed formula result[i] = F[i mod len]",
        "n in 0..260 x len 1..26 x 5 representations enumerated completely (quick: n<=80), plus generated 2-D grids with large n, invalid n and empty collections. Exhaustive over the stated finite space.",
        "Column-major flattening implemented with explicit loops in the harness.",
        "DESIGN.md §5 C19",
    ),
    "C20": (
        "PBT with three-valued accept/reject expectation over constructor specifications; structural consistency oracle",
        "Generated Labware/Trough specifications (valid and with exactly one or several invalid aspects): accepted objects must have consistent wells/indices/volumes/history/composition laid out as given; specifications the property lists as unrepresentable must raise ValueError. Exploration.",
        "Undetermined inputs (bool sizes, inf max_volume, ...) are EITHER.",
        "DESIGN.md §5 C20",
    ),
}


def main():
    checks = []
    na = []
    for pid in sorted(TABLE):
        technique, text, note, ref = TABLE[pid]
        if os.path.exists(os.path.join(ROOT, "vf", "props", pid.lower() + ".py")):
            checks.append(
                {
                    "property_id": pid,
                    "quick_cmd": f"./check {pid} quick",
                    "thorough_cmd": f"./check {pid} thorough",
                    "evidence_file": f"evidence/{pid}.json",
                    "replay_cmd_template": f"./check {pid} --replay {{path}}",
                    "engine": "vf",
                    "level_claimed": {"category": "exploration", "text": text, "design_ref": ref},
                    "level_note": note,
                    "technique": technique,
                }
            )
        else:
            na.append({"property_id": pid, "reason": "check not built yet (work in progress; the technique applies, see DESIGN.md §5)"})
    hooks_commits = []
    hc = os.path.join(ROOT, "HOOK_COMMITS.txt")
    if os.path.exists(hc):
        hooks_commits = [l.split()[0] for l in open(hc) if l.strip() and not l.startswith("#")]
    manifest = {
        "version": 1,
        "setup_cmd": "./setup.sh",
        "hooks": {
            "guard": "ROBOTOOLS_VERIF",
            "enable": "no source hooks are needed: every observation point is public API; ./check exports ROBOTOOLS_VERIF=1 for uniformity only",
            "baseline_off_cmd": "cd /repo && env -u ROBOTOOLS_VERIF /venv/bin/python -m pytest -ra -q -p no:cacheprovider --timeout=900 --continue-on-collection-errors",
            "source_commits": hooks_commits,
            "add_only": True,
        },
        "engines": [
            {
                "name": "vf",
                "path": "vf/",
                "serves_properties": [c["property_id"] for c in checks],
                "kind_free_text": "Hypothesis 6.168 property-based testing (programs as data, model-based), exhaustive enumeration of finite sub-spaces over a process pool, atheris/libFuzzer add-on campaigns; oracles: independent GWL interpreter (vf/gwl.py), exact rational model (vf/model.py), independent decoders",
            }
        ],
        "checks": checks,
        "notes": "All checks: ./check <id> quick|thorough, exit 0 / 1 + VIOLATION line / 2 harness error. Deterministic in (tree, tier, VERIF_SEED). Known findings: KNOWN_FINDINGS.txt. Sensitivity audit: 280 independently seeded changes (seeded/, DESIGN.md §11.4), hand-written and automatic mutants (mutants/, §11.3).",
        "not_applicable": na,
    }
    with open(os.path.join(ROOT, "MANIFEST.json"), "w") as fh:
        json.dump(manifest, fh, indent=1)
    try:
        import jsonschema

        jsonschema.validate(manifest, json.load(open(os.path.join(ROOT, "schemas", "MANIFEST.schema.json"))))
        print("MANIFEST.json valid;", len(checks), "checks,", len(na), "not yet claimed")
    except ImportError:
        print("MANIFEST.json written (jsonschema not importable)")


if __name__ == "__main__":
    main()
