#!/bin/bash
# quiet-on-unchanged-tree audit: every quick check for several VERIF_SEED values, fresh processes
cd "$(dirname "$0")/.." || exit 2
for seed in "$@"; do
  for id in C01 C02 C03 C04 C05 C06 C07 C08 C09 C10 C11 C12 C13 C14 C15 C16 C17 C18 C19 C20; do
    out=$(VERIF_SEED=$seed VERIF_EVIDENCE_DIR=/tmp/vf_ms_ev ./check $id quick 2>&1); code=$?
    [ $code -ne 0 ] && echo "seed=$seed $id exit=$code $(echo "$out" | grep -E "VIOLATION|HARNESS|^  " | head -3 | cut -c1-300)"
  done
  echo "seed=$seed done"
done
rm -rf /tmp/vf_ms_ev
