#!/bin/bash
# regression over all seeded changes for the given VERIF_SEED values; prints only misses and a count per seed
cd "$(dirname "$0")/.." || exit 2
for seed in "$@"; do
  out=$(ls -d seeded/*/ | VERIF_SEED=$seed xargs /venv/bin/python tools/seeded.py --fast 2>&1)
  echo "seed=$seed caught=$(echo "$out" | grep -c '^CAUGHT') missed=$(echo "$out" | grep -c '^MISSED')"
  echo "$out" | grep -A4 '^MISSED' | cut -c1-200
done
