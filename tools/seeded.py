#!/usr/bin/env python3
"""Evaluates seeded changes (verif/seeded/<id>/ or any directory holding patch.diff + demo.py).

usage: tools/seeded.py [--fast] [--tier quick] [--checks C01,C05] <dir> [<dir> ...]
For each directory: copy /repo's working tree to a scratch directory under /tmp, apply patch.diff there,
run the repository's test suite (must still pass), run demo.py against the unchanged tree (must pass) and
against the changed copy (must fail), then run the given checks (default: the property named in meta.json,
or the id in the directory name) with VERIF_REPO pointing at the copy.  /repo itself is never modified.
"""
import json
import os
import re
import shutil
import subprocess
import sys
import tempfile

ROOT = os.path.dirname(os.path.dirname(os.path.abspath(__file__)))
PY = "/venv/bin/python"


def run(cmd, cwd=None, env=None, timeout=3600):
    return subprocess.run(cmd, cwd=cwd, env=env, capture_output=True, text=True, timeout=timeout)


FAST = False  # --fast: only apply the patch and run the checks (regression runs; the confirmation was done when the change was kept)


def evaluate(d, tier, checks_override):
    d = os.path.abspath(d)
    name = os.path.basename(d.rstrip("/"))
    meta = {}
    if os.path.exists(os.path.join(d, "meta.json")):
        meta = json.load(open(os.path.join(d, "meta.json")))
    if meta.get("excluded") and FAST:
        return {"name": name, "checks": {}, "patch": "excluded: " + meta["excluded"][:80], "superseded": True}
    if meta.get("superseded_by") and FAST:
        return {"name": name, "checks": {}, "patch": "superseded by repository commit " + meta["superseded_by"], "superseded": True}
    checks = checks_override or meta.get("checks") or ([meta["property"]] if "property" in meta else re.findall(r"C\d\d", name)[:1])
    tmp = tempfile.mkdtemp(prefix="vfseed_")
    res = {"name": name, "checks": {}}
    try:
        dst = os.path.join(tmp, "repo")
        shutil.copytree("/repo", dst, ignore=shutil.ignore_patterns(".git", "__pycache__", "*.pyc", ".pytest_cache", "seeded_*"))
        r = run(["patch", "-p1", "--no-backup-if-mismatch", "-i", os.path.join(d, "patch.diff")], cwd=dst)
        res["patch"] = "applied" if r.returncode == 0 else "FAILED: " + (r.stdout + r.stderr)[-300:]
        if r.returncode != 0:
            return res
        if not FAST:
            r = run([PY, "-m", "pytest", "-q", "-x", "-p", "no:cacheprovider", "robotools"], cwd=dst)
            m = re.search(r"(\d+) passed", r.stdout)
            res["tests"] = f"{m.group(1)} passed" if (r.returncode == 0 and m) else "TESTS FAIL: " + r.stdout[-300:]
        demo = os.path.join(d, "demo.py")
        if os.path.exists(demo) and not FAST:
            # same layout as in the author's worktree: <tree>/seeded_<name>/demo.py, run from <tree>
            clean = os.path.join(tmp, "clean")
            shutil.copytree("/repo", clean, ignore=shutil.ignore_patterns(".git", "__pycache__", "*.pyc", ".pytest_cache", "seeded_*"))
            outs = {}
            for tag, tree in (("unchanged", clean), ("changed", dst)):
                sub = os.path.join(tree, "seeded_" + name)
                os.makedirs(sub, exist_ok=True)
                shutil.copy(demo, os.path.join(sub, "demo.py"))
                outs[tag] = run([PY, "-W", "ignore", os.path.join("seeded_" + name, "demo.py")], cwd=tree, env=dict(os.environ, PYTHONPATH=tree))
            r0, r1 = outs["unchanged"], outs["changed"]
            res["demo_unchanged"] = "passes" if r0.returncode == 0 else f"FAILS ({r0.returncode}): " + (r0.stdout + r0.stderr)[-200:]
            res["demo_changed"] = "fails" if r1.returncode != 0 else "PASSES (no effect?)"
        for pid in checks:
            env = dict(os.environ, VERIF_REPO=dst, VERIF_EVIDENCE_DIR=os.path.join(tmp, "ev"), VERIF_SEED=os.environ.get("VERIF_SEED", "1"))
            r = run([os.path.join(ROOT, "check"), pid, tier], env=env)
            lines = [l for l in r.stdout.splitlines() if l.startswith("  ")][:1]
            res["checks"][pid] = f"exit{r.returncode}" + (f" [{lines[0].strip()[:200]}]" if lines and r.returncode == 1 else "") + (" " + r.stderr[-200:] if r.returncode == 2 else "")
    finally:
        shutil.rmtree(tmp, ignore_errors=True)
    return res


def main(argv):
    tier = "quick"
    checks = None
    dirs = []
    i = 0
    while i < len(argv):
        if argv[i] == "--tier":
            tier = argv[i + 1]
            i += 2
        elif argv[i] == "--fast":
            global FAST
            FAST = True
            i += 1
        elif argv[i] == "--checks":
            checks = argv[i + 1].split(",")
            i += 2
        else:
            dirs.append(argv[i])
            i += 1
    for d in dirs:
        res = evaluate(d, tier, checks)
        caught = [p for p, v in res["checks"].items() if v.startswith("exit1")]
        verdict = "SUPERSEDED" if res.get("superseded") else ("CAUGHT" if caught else "MISSED")
        print(f"{verdict} {res['name']}: patch={res.get('patch')} tests={res.get('tests')} demo(unchanged)={res.get('demo_unchanged')} demo(changed)={res.get('demo_changed')}")
        for p, v in res["checks"].items():
            print(f"    {p}: {v}")
    return 0


if __name__ == "__main__":
    sys.exit(main(sys.argv[1:]))
