"""Independent parser + interpreter of Tecan worklist (.gwl) records.

Written from the Tecan worklist format description (record layouts as quoted in the docstrings of the
repository) - it shares no code with robotools.  Two layers:

* parse_record(text)  -> Rec (type, fields) or raises GwlError
* Interp(racks, device).run(records) -> executes the records on exact (Fraction) well volumes and
  origin-tagged contents, reporting limit violations, oversized steps and addressing errors.
"""
import math
import re
from fractions import Fraction

LETTERS = "ABCDEFGHIJKLMNOPQRSTUVWXYZ"


TOL = Fraction(1, 10**6)  # slack of the limit checks (R records print float volumes unrounded)


class GwlError(Exception):
    pass


class Rec:
    __slots__ = ("type", "f", "text")

    def __init__(self, type_, fields, text):
        self.type = type_
        self.f = fields
        self.text = text

    def __repr__(self):
        return f"Rec({self.type}, {self.f})"


_VOL2 = re.compile(r"^[0-9]+\.[0-9]{2}$")
_INT = re.compile(r"^[0-9]+$")
_NUM = re.compile(r"^[0-9]+(\.[0-9]+)?$")


def split_args(inner):
    """Splits the argument list of a script command at commas outside double quotes."""
    args, cur, quoted = [], "", False
    for ch in inner:
        if ch == '"':
            quoted = not quoted
            cur += ch
        elif ch == "," and not quoted:
            args.append(cur)
            cur = ""
        else:
            cur += ch
    if quoted:
        raise GwlError("unbalanced quotes in script command")
    args.append(cur)
    return args


def parse_record(text):
    if not isinstance(text, str):
        raise GwlError(f"record is {type(text).__name__}, not str")
    if "\n" in text or "\r" in text:
        raise GwlError("record contains a line break")
    if text in ("W;", "W1;", "W2;", "W3;", "W4;", "WD;", "F;", "B;"):
        return Rec(text[:-1], {}, text)
    if text.startswith("C;"):
        body = text[2:]
        if ";" in body:
            raise GwlError("comment contains a separator")
        return Rec("C", {"text": body}, text)
    if text.startswith("S;"):
        if not _INT.match(text[2:]):
            raise GwlError(f"S record with non-integer index {text[2:]!r}")
        return Rec("S", {"index": int(text[2:])}, text)
    if text.startswith("B;") and text.endswith(");") and "(" in text:
        name = text[2 : text.index("(")]
        args = split_args(text[text.index("(") + 1 : -2])
        if name in ("Aspirate", "Dispense"):
            if len(args) != 20:
                raise GwlError(f"{name} command with {len(args)} arguments, expected 20")
            f = {"cmd": name}
            if not re.match(r"^-?[0-9]+$", args[0]):
                raise GwlError(f"tip mask {args[0]!r} is not an integer")
            f["mask"] = int(args[0])
            if not (args[1].startswith('"') and args[1].endswith('"') and len(args[1]) >= 2):
                raise GwlError("liquid class is not quoted")
            f["liquid_class"] = args[1][1:-1]
            slots = []
            for a in args[2:14]:
                if a == "0":
                    slots.append(None)
                elif a.startswith('"') and a.endswith('"') and _NUM.match(a[1:-1]):
                    slots.append(a[1:-1])
                else:
                    raise GwlError(f"volume slot {a!r} is neither 0 nor a quoted number")
            f["slots"] = slots
            for key, a in (("grid", args[14]), ("site", args[15]), ("spacing", args[16]), ("zero", args[18]), ("arm", args[19])):
                if not re.match(r"^-?[0-9]+$", a):
                    raise GwlError(f"{key} argument {a!r} is not an integer")
                f[key] = int(a)
            if not (args[17].startswith('"') and args[17].endswith('"')):
                raise GwlError("selection is not quoted")
            f["selection"] = args[17][1:-1]
            return Rec("CMD_" + name.upper(), f, text)
        if name == "Wash":
            if len(args) != 16:
                raise GwlError(f"Wash command with {len(args)} arguments, expected 16")
            return Rec("CMD_WASH", {"args": args}, text)
        raise GwlError(f"unknown script command {name!r}")
    parts = text.split(";")
    if parts[0] in ("A", "D"):
        if len(parts) != 11:
            raise GwlError(f"{parts[0]} record with {len(parts)} fields, expected 11")
        keys = ["type", "rack_label", "rack_id", "rack_type", "position", "tube_id", "volume", "liquid_class", "tip_type", "tip_mask", "forced_rack_type"]
        f = dict(zip(keys, parts))
        if not _INT.match(f["position"]):
            raise GwlError(f"position {f['position']!r} is not a non-negative integer")
        if not _VOL2.match(f["volume"]):
            raise GwlError(f"volume {f['volume']!r} is not a two-decimal number")
        if f["tip_mask"] != "" and not (_INT.match(f["tip_mask"]) and 1 <= int(f["tip_mask"]) <= 255):
            raise GwlError(f"tip mask {f['tip_mask']!r} is not empty or 1..255")
        return Rec(parts[0], f, text)
    if parts[0] == "R":
        if len(parts) < 16:
            raise GwlError(f"R record with {len(parts)} fields, expected >= 16")
        keys = ["type", "src_label", "src_id", "src_type", "src_start", "src_end", "dst_label", "dst_id", "dst_type", "dst_start", "dst_end", "volume", "liquid_class", "diti_reuse", "multi_disp", "direction"]
        f = dict(zip(keys, parts[:16]))
        for k in ("src_start", "src_end", "dst_start", "dst_end"):
            if not _INT.match(f[k]):
                raise GwlError(f"{k} {f[k]!r} is not a non-negative integer")
        if not _NUM.match(f["volume"]):
            raise GwlError(f"R volume {f['volume']!r} is not a plain decimal number")
        if f["direction"] not in ("0", "1"):
            raise GwlError(f"direction {f['direction']!r} not 0/1")
        for k in ("diti_reuse", "multi_disp"):
            if not re.match(r"^-?[0-9]+$", f[k]):
                raise GwlError(f"{k} {f[k]!r} is not an integer")
        excl = parts[16:]
        for e in excl:
            if not _INT.match(e):
                raise GwlError(f"excluded well {e!r} is not an integer")
        f["exclude"] = [int(e) for e in excl]
        return Rec("R", f, text)
    raise GwlError(f"unknown record type in {text[:40]!r}")


# ---------------------------------------------------------------------------------------------
# selection bitmap (EVOware rule)
# ---------------------------------------------------------------------------------------------
def decode_selection(sel):
    """-> (cols, rows, sorted column-major indices); raises GwlError on malformed strings."""
    if len(sel) < 4:
        raise GwlError("selection shorter than 4 characters")
    try:
        cols = int(sel[0:2], 16)
        rows = int(sel[2:4], 16)
    except ValueError:
        raise GwlError(f"bad selection header {sel[:4]!r}")
    n = rows * cols
    payload = sel[4:]
    if len(payload) != math.ceil(n / 7):
        raise GwlError("selection payload has the wrong length")
    out = []
    for k, ch in enumerate(payload):
        val = ord(ch) - 48
        if not 0 <= val <= 127:
            raise GwlError("selection character out of range")
        for bit in range(7):
            if val >> bit & 1:
                idx = k * 7 + bit
                if idx >= n:
                    raise GwlError("selection padding bit set")
                out.append(idx)
    return cols, rows, out


# ---------------------------------------------------------------------------------------------
# racks and numbering
# ---------------------------------------------------------------------------------------------
def dec(x):
    """Number -> Fraction of its shortest decimal representation (0.1 -> 1/10), so that values on a decimal
    grid are exact; differs from the binary value by less than one ulp."""
    if isinstance(x, Fraction):
        return x
    if isinstance(x, str):
        return Fraction(x)
    return Fraction(repr(float(x)))


def lenient_f11_hook(what, rec, info):
    """For checks that are not about addressing (C03): accept the EVO-numbered source range that a
    FluentWorklist.distribute emits for troughs (open finding F11, reported by C01) and use that column."""
    if what != "R-source":
        return None
    src = info["src"]
    V = src.id_rows
    s0, s1 = int(rec.f["src_start"]), int(rec.f["src_end"])
    if info["device"] == "fluent" and src.kind == "trough" and V > 1 and (s0 - 1) % V == 0 and s1 == s0 + V - 1 and (s0 - 1) // V < src.cols:
        return (0, (s0 - 1) // V)
    return None


class Rack:
    """One labware on the worktable: geometry, limits, exact volumes and origin-tagged contents."""

    def __init__(self, name, kind, id_rows, cols, vmin, vmax, init, gridsite=None):
        self.name = name
        self.kind = kind  # "plate" | "trough"
        self.id_rows = id_rows  # rows of the id grid (virtual rows for troughs)
        self.cols = cols
        self.real_rows = 1 if kind == "trough" else id_rows
        self.vmin = dec(vmin)
        self.vmax = dec(vmax)
        self.gridsite = tuple(gridsite) if gridsite else None
        self.vol = {}
        self.content = {}  # (r,c) -> {origin: Fraction amount}
        self.tainted = set()
        for r in range(self.real_rows):
            for c in range(cols):
                v = dec(init[r][c])
                self.vol[(r, c)] = v
                self.content[(r, c)] = {(name, r, c): v} if v > 0 else {}

    @classmethod
    def from_spec(cls, spec):
        if spec["kind"] == "trough":
            return cls(spec["name"], "trough", spec["vrows"], spec["cols"], spec["min"], spec["max"], [spec["init"]], spec.get("pos"))
        return cls(spec["name"], "plate", spec["rows"], spec["cols"], spec["min"], spec["max"], spec["init"], spec.get("pos"))

    def well_of_position(self, pos, device):
        """Device-specific numbering -> (real (r, c), virtual row)."""
        if self.kind == "trough" and device == "fluent":
            if not 1 <= pos <= self.cols:
                raise GwlError(f"position {pos} outside 1..{self.cols} of Fluent trough {self.name}")
            return (0, pos - 1), None
        n = self.id_rows * self.cols
        if not 1 <= pos <= n:
            raise GwlError(f"position {pos} outside 1..{n} of {self.name}")
        c, r = divmod(pos - 1, self.id_rows)
        if self.kind == "trough":
            return (0, c), r
        return (r, c), r

    def position_of(self, wid, device):
        """Independent numbering of a well id (letter = row, number = column)."""
        r = LETTERS.index(wid[0])
        c = int(wid[1:]) - 1
        if r >= self.id_rows or c >= self.cols or c < 0:
            raise GwlError(f"{wid} is not a well of {self.name}")
        if self.kind == "trough" and device == "fluent":
            return 1 + c
        return 1 + c * self.id_rows + r

    def real_index(self, wid):
        r = LETTERS.index(wid[0])
        c = int(wid[1:]) - 1
        if r >= self.id_rows or c >= self.cols or c < 0 or wid != f"{LETTERS[r]}{c + 1:02d}":
            raise GwlError(f"{wid} is not a well of {self.name}")
        return (0, c) if self.kind == "trough" else (r, c)


class Issue:
    __slots__ = ("kind", "index", "msg")

    def __init__(self, kind, index, msg):
        self.kind, self.index, self.msg = kind, index, msg

    def __repr__(self):
        return f"{self.kind}@{self.index}: {self.msg}"


class Interp:
    """Executes worklist records on the racks.  `max_step` (optional) is the per-step volume limit."""

    def __init__(self, racks, device, max_step=None, known=None):
        self.racks = {r.name: r for r in racks}
        self.by_site = {r.gridsite: r for r in racks if r.gridsite}
        self.device = device
        self.max_step = None if max_step is None else dec(max_step)
        self.issues = []
        self.tip = None  # (volume text, Fraction volume, content dict or None)
        self.moves = []  # per liquid-moving record: dict(index, type, rack, well, pos, vol)
        self.n = 0
        # hook for open known findings: callable(kind, rec, info) -> replacement or None
        self.known = known

    def issue(self, kind, msg):
        self.issues.append(Issue(kind, self.n, msg))

    def _take(self, rack, well, vol):
        have = rack.vol[well]
        content = rack.content[well]
        if vol == 0:
            return {}
        if have > 0:
            frac = min(Fraction(1), vol / have)
            taken = {o: a * frac for o, a in content.items()}
            rack.content[well] = {o: a - taken[o] for o, a in content.items() if a - taken[o] > 0}
        else:
            taken = {}
        rack.vol[well] = have - vol
        if rack.vol[well] < rack.vmin - TOL:
            self.issue("below-min", f"{rack.name}{well}: {float(have)} - {float(vol)} < min_volume {float(rack.vmin)}")
        return None if well in rack.tainted else taken

    def _put(self, rack, well, vol, content):
        if vol == 0:
            return
        rack.vol[well] += vol
        if rack.vol[well] > rack.vmax + TOL:
            self.issue("above-max", f"{rack.name}{well}: {float(rack.vol[well] - vol)} + {float(vol)} > max_volume {float(rack.vmax)}")
        if content is None:
            rack.tainted.add(well)
        else:
            tgt = rack.content[well]
            for o, a in content.items():
                tgt[o] = tgt.get(o, 0) + a

    def _step_check(self, vol, what):
        if self.max_step is not None and vol > self.max_step + TOL:
            self.issue("oversized-step", f"{what} of {float(vol)} exceeds the worklist max_volume {float(self.max_step)}")

    def run(self, records, start=0):
        for i, text in enumerate(records):
            self.n = start + i
            try:
                rec = parse_record(text)
            except GwlError as exc:
                self.issue("malformed", f"{text!r}: {exc}")
                self.tip = None
                continue
            try:
                self._exec(rec)
            except GwlError as exc:
                self.issue("addressing", f"{text!r}: {exc}")
                self.tip = None
        return self.issues

    def _rack(self, label):
        if label not in self.racks:
            raise GwlError(f"unknown rack label {label!r}")
        return self.racks[label]

    def _exec(self, rec):
        t = rec.type
        if t == "A":
            rack = self._rack(rec.f["rack_label"])
            well, vrow = rack.well_of_position(int(rec.f["position"]), self.device)
            vol = Fraction(rec.f["volume"])
            self._step_check(vol, "aspirate")
            content = self._take(rack, well, vol)
            self.tip = (rec.f["volume"], vol, content, rec)
            self.moves.append({"index": self.n, "type": "A", "rack": rack.name, "well": well, "vrow": vrow, "pos": int(rec.f["position"]), "vol": vol})
        elif t == "D":
            rack = self._rack(rec.f["rack_label"])
            well, vrow = rack.well_of_position(int(rec.f["position"]), self.device)
            vol = Fraction(rec.f["volume"])
            self._step_check(vol, "dispense")
            if self.tip is not None and self.tip[0] == rec.f["volume"]:
                content = self.tip[2]
                partner = self.tip[3]
            else:
                content = None  # liquid of unknown origin
                partner = None
            self._put(rack, well, vol, content)
            self.moves.append({"index": self.n, "type": "D", "rack": rack.name, "well": well, "vrow": vrow, "pos": int(rec.f["position"]), "vol": vol, "partner": partner})
            self.tip = None
        elif t == "R":
            self.tip = None
            src = self._rack(rec.f["src_label"])
            dst = self._rack(rec.f["dst_label"])
            s0, s1 = int(rec.f["src_start"]), int(rec.f["src_end"])
            d0, d1 = int(rec.f["dst_start"]), int(rec.f["dst_end"])
            vol = Fraction(rec.f["volume"])
            self._step_check(vol, "reagent distribution step")
            if s1 < s0 or d1 < d0:
                raise GwlError("descending range")
            swell = None
            if self.known is not None:
                swell = self.known("R-source", rec, {"src": src, "device": self.device})
            if swell is None:
                swells = {src.well_of_position(p, self.device)[0] for p in range(s0, s1 + 1)}
                if len(swells) != 1:
                    raise GwlError(f"source range {s0}..{s1} of {src.name} covers {len(swells)} real wells")
                swell = swells.pop()
            excl = rec.f["exclude"]
            if excl != sorted(excl):
                self.issue("malformed", f"{rec.text!r}: exclusion list not ascending")
            for e in excl:
                if not d0 <= e <= d1:
                    self.issue("malformed", f"{rec.text!r}: excluded well {e} outside {d0}..{d1}")
            dpos = [p for p in range(d0, d1 + 1) if p not in set(excl)]
            dwells = [dst.well_of_position(p, self.device)[0] for p in dpos]
            total = vol * len(dwells)
            have = src.vol[swell]
            content = self._take(src, swell, total)
            self.moves.append({"index": self.n, "type": "R", "rack": src.name, "well": swell, "dst_rack": dst.name, "dst_wells": dwells, "dst_pos": dpos, "vol": vol, "src_range": (s0, s1)})
            for w in dwells:
                part = None if content is None else ({o: a / len(dwells) for o, a in content.items()})
                self._put(dst, w, vol, part)
        elif t in ("CMD_ASPIRATE", "CMD_DISPENSE"):
            self.tip = None
            f = rec.f
            key = (f["grid"], f["site"] + 1)
            if key not in self.by_site:
                raise GwlError(f"no labware at grid {f['grid']} site {f['site']} (zero-based)")
            rack = self.by_site[key]
            deltas = decode_command(rec, rack)
            for (well, vrow, vol) in deltas:
                self._step_check(vol, "script " + f["cmd"])
                if t == "CMD_ASPIRATE":
                    self._take(rack, well, vol)
                else:
                    self._put(rack, well, vol, None)
            self.moves.append({"index": self.n, "type": t, "rack": rack.name, "deltas": deltas})
        else:
            # W*, WD, F, B, C, S, Wash command: no liquid moves between wells
            if t in ("W", "W1", "W2", "W3", "W4", "WD", "F"):
                self.tip = None


def decode_command(rec, rack):
    """EVOware rule: selected tips in ascending order serve the selected wells in ascending row order.
    -> list of (real well, virtual/real row, Fraction volume)."""
    f = rec.f
    mask = f["mask"]
    if not 1 <= mask <= 255:
        raise GwlError(f"tip mask {mask} outside 1..255")
    tips = [i for i in range(8) if mask >> i & 1]
    cols, rows, sel = decode_selection(f["selection"])
    if (cols, rows) != (rack.cols, rack.id_rows):
        raise GwlError(f"selection is for a {rows}x{cols} labware, {rack.name} is {rack.id_rows}x{rack.cols}")
    if len({i // rows for i in sel}) > 1:
        raise GwlError("selection spans several columns")
    if len(sel) != len(tips):
        raise GwlError(f"{len(tips)} tips selected for {len(sel)} wells")
    for i, s in enumerate(f["slots"]):
        if (s is not None) != (i in tips):
            raise GwlError(f"volume slot {i + 1} {'filled' if s is not None else 'empty'} but tip {'not ' if i not in tips else ''}selected")
    out = []
    for tip, idx in zip(tips, sorted(sel)):
        c, r = divmod(idx, rows)
        well = (0, c) if rack.kind == "trough" else (r, c)
        out.append((well, r, Fraction(f["slots"][tip])))
    return out
