"""Coverage-guided fuzz campaigns (atheris / libFuzzer) - thorough-tier add-on for C06, C09, C12, C18 and C19.

Run as a subprocess by the property modules' `extra_campaign`:
    python -m vf.fuzz <Cxx> <stats.json> <replay.json> -runs=N -seed=S [corpus dir]
The byte string is decoded with FuzzedDataProvider into a structured case of the property module and
checked by the module's own `check_case` (the semantic oracle is inside the target).  On a violation the
case is written to <replay.json> and the target raises, which stops libFuzzer with a non-zero status.
Statistics are written to <stats.json> every 1000 executions (atexit handlers do not run under libFuzzer).
"""
import json
import sys

from . import init_env

init_env()

import atheris  # noqa: E402

with atheris.instrument_imports(include=["robotools"]):
    import robotools  # noqa: F401, E402
    import robotools.evotools.commands  # noqa: F401, E402
    import robotools.worklists.base  # noqa: F401, E402
    import robotools.worklists.utils  # noqa: F401, E402

from .core import canon, case_hash  # noqa: E402
from .runner import load_known, load_module, run_case  # noqa: E402

STATE = {"n": 0, "nontrivial": set(), "classes": {}, "samples": []}


def _flush(path):
    with open(path, "w") as fh:
        json.dump({"evaluations": STATE["n"], "nontrivial": sorted(STATE["nontrivial"]), "classes": STATE["classes"], "samples": STATE["samples"][:3]}, fh)


LATIN = [chr(c) for c in list(range(0x20, 0x7F)) + list(range(0xA0, 0x100))]


def _text(fdp, maxlen):
    n = fdp.ConsumeIntInRange(0, maxlen)
    raw = fdp.ConsumeBytes(n)
    return "".join(LATIN[b % len(LATIN)] for b in raw)


def decode_c12(data):
    fdp = atheris.FuzzedDataProvider(data)
    rows = fdp.ConsumeIntInRange(1, 26)
    cols = fdp.ConsumeIntInRange(1, 48)
    n = rows * cols
    raw = fdp.ConsumeBytes((n + 7) // 8)
    sel = [i for i in range(n) if i // 8 < len(raw) and raw[i // 8] >> (i % 8) & 1]
    return {"rows": rows, "cols": cols, "mode": "explicit", "sel": sel, "style": "fuzz"}


def decode_c09(data):
    from .props import c09

    fdp = atheris.FuzzedDataProvider(data)
    M = [950, 200, 10000000][fdp.ConsumeIntInRange(0, 2)]
    which = fdp.ConsumeIntInRange(0, 2)
    if which < 2:
        method = ["aspirate_well", "dispense_well"][which]
        kind = fdp.ConsumeIntInRange(0, 5)
        if kind == 0:
            volume = fdp.ConsumeFloat()
        elif kind == 1:
            volume = fdp.ConsumeIntInRange(-5, 2000)
        else:
            volume = fdp.ConsumeIntInRange(0, 100000) / 100
        pk = fdp.ConsumeIntInRange(0, 9)
        position = fdp.ConsumeIntInRange(-3, 400) if pk else [1.5, -2.5, 0.5][fdp.ConsumeIntInRange(0, 2)]
        tip_opts = ["any", 1, 5, 8, "T2", [1, 2], ["T8", 3], 0, 9, [1, 9]]
        args = {
            "rack_label": _text(fdp, 36),
            "position": position,
            "volume": volume,
            "liquid_class": _text(fdp, 40),
            "tip": tip_opts[fdp.ConsumeIntInRange(0, len(tip_opts) - 1)],
            "rack_id": _text(fdp, 36),
            "tube_id": _text(fdp, 40),
            "rack_type": _text(fdp, 36),
            "forced_rack_type": _text(fdp, 30),
        }
        case = {"M": M, "diti": False, "prefill": [], "stream": "fuzz", "method": method, "args": args}
    else:
        method = "reagent_distribution"
        d0 = fdp.ConsumeIntInRange(1, 90)
        d1 = d0 + fdp.ConsumeIntInRange(0, 12)
        excl = sorted({fdp.ConsumeIntInRange(d0 - 1, d1 + 1) for _ in range(fdp.ConsumeIntInRange(0, 4))})
        dirs = ["left_to_right", "right_to_left", "up", ""]
        args = {
            "src_rack_label": _text(fdp, 36),
            "dst_rack_label": _text(fdp, 36),
            "volume": fdp.ConsumeIntInRange(-100, 150000) / 100 if fdp.ConsumeBool() else fdp.ConsumeFloat(),
            "diti_reuse": fdp.ConsumeIntInRange(1, 12),
            "multi_disp": fdp.ConsumeIntInRange(1, 12),
            "liquid_class": _text(fdp, 40),
            "direction": dirs[fdp.ConsumeIntInRange(0, 3)],
            "src_rack_id": _text(fdp, 36),
            "src_rack_type": _text(fdp, 36),
            "dst_rack_id": _text(fdp, 36),
            "dst_rack_type": _text(fdp, 36),
        }
        if isinstance(args["volume"], float) and abs(args["volume"]) < 0.01:
            args["volume"] = 0.01  # R records print the volume unrounded; tiny volumes are not generated (DESIGN §9)
        case = {"M": M, "diti": False, "prefill": ["B;"], "stream": "fuzz", "method": method, "args": args, "range": {"src_start": 1, "src_len": 8, "dst_start": d0, "dst_end": d1}, "exclude": excl}
    case["classes"] = c09.classes_from_values(case)
    # JSON-safe specials
    import math

    for k, v in list(case["args"].items()):
        if isinstance(v, float) and (math.isnan(v) or math.isinf(v)):
            case["args"][k] = {"special": repr(v)}
    return case


def _posfloat(fdp, lo, hi):
    """A float in [lo, hi]: either any bit pattern folded into the range, or a two-decimal number."""
    import math

    if fdp.ConsumeBool():
        x = abs(fdp.ConsumeFloat())
        if not math.isfinite(x):
            x = hi
        while x > hi:
            x /= 1024.0
        return max(lo, x)
    return max(lo, min(hi, fdp.ConsumeIntInRange(int(lo * 100), int(min(hi, 2e7) * 100)) / 100))


def decode_c06(data):
    fdp = atheris.FuzzedDataProvider(data)
    if fdp.ConsumeIntInRange(0, 4) < 4:
        M = _posfloat(fdp, 1e-3, 1e4)
        k = fdp.ConsumeIntInRange(0, 3)
        if k == 0:
            v = _posfloat(fdp, 0.0, 1e6)
        elif k == 1:
            v = fdp.ConsumeIntInRange(0, 40) * M
        elif k == 2:
            import math

            v = fdp.ConsumeIntInRange(1, 40) * M
            for _ in range(fdp.ConsumeIntInRange(0, 3)):
                v = math.nextafter(v, math.inf if fdp.ConsumeBool() else -math.inf)
        else:
            v = fdp.ConsumeIntInRange(0, 4000) / 100 * M
        if v / M > 3e5:
            v = M * 7.5
        return {"kind": "pv", "M": M, "v": max(0.0, v)}
    M = max(0.05, fdp.ConsumeIntInRange(5, 200000) / 100)
    n = fdp.ConsumeIntInRange(1, 4)
    vols = []
    for _ in range(n):
        k = fdp.ConsumeIntInRange(0, 2)
        v = fdp.ConsumeIntInRange(0, 300000) / 100 if k == 0 else (round(fdp.ConsumeIntInRange(0, 12) * M, 2) if k == 1 else round(fdp.ConsumeIntInRange(0, 1200) / 100 * M, 2))
        vols.append(v if v / M <= 14 else round(M * 3.5, 2))
    return {
        "kind": "transfer", "M": M, "device": ["evo", "fluent"][fdp.ConsumeIntInRange(0, 1)], "src_trough": fdp.ConsumeBool(),
        "src": [fdp.ConsumeIntInRange(0, 7) for _ in range(n)], "dst": [fdp.ConsumeIntInRange(0, 15) for _ in range(n)], "vols": vols,
        "wash": [1, 2, 3, 4, "flush", "reuse"][fdp.ConsumeIntInRange(0, 5)], "partition_by": ["auto", "source", "destination"][fdp.ConsumeIntInRange(0, 2)],
    }


def decode_c18(data):
    fdp = atheris.FuzzedDataProvider(data)
    letters = "ABCDEFGHIJKLMNOPQRSTUVWXYZ"
    nrows = [1, 2, 3, 8, 26][fdp.ConsumeIntInRange(0, 4)]
    cols = sorted({fdp.ConsumeIntInRange(1, 99) for _ in range(fdp.ConsumeIntInRange(1, 5))})
    triples = []
    for _ in range(fdp.ConsumeIntInRange(0, 12)):
        s = f"{letters[fdp.ConsumeIntInRange(0, nrows - 1)]}{cols[fdp.ConsumeIntInRange(0, len(cols) - 1)]:02d}"
        d = f"{letters[fdp.ConsumeIntInRange(0, nrows - 1)]}{cols[fdp.ConsumeIntInRange(0, len(cols) - 1)]:02d}"
        triples.append([s, d, fdp.ConsumeIntInRange(0, 2000000) / 1000])
    return {"kind": "part", "mode": ["source", "destination"][fdp.ConsumeIntInRange(0, 1)], "triples": triples}


def decode_c19(data):
    fdp = atheris.FuzzedDataProvider(data)
    rep = ["grid2d", "colslice", "list", "array1d", "tuple"][fdp.ConsumeIntInRange(0, 4)]
    case = {"rep": rep, "rows": fdp.ConsumeIntInRange(1, 26), "cols": fdp.ConsumeIntInRange(1, 6), "ns": [fdp.ConsumeIntInRange(0, 3000) for _ in range(fdp.ConsumeIntInRange(1, 3))]}
    if rep in ("list", "array1d", "tuple") and fdp.ConsumeBool():
        case["pattern"] = [fdp.ConsumeIntInRange(0, 7) for _ in range(fdp.ConsumeIntInRange(1, 8))]
    return case


DECODERS = {"C12": decode_c12, "C09": decode_c09, "C06": decode_c06, "C18": decode_c18, "C19": decode_c19}


def main(argv):
    pid, stats_path, replay_path = argv[1], argv[2], argv[3]
    mod = load_module(pid)
    known = load_known(pid)
    decode = DECODERS[pid]

    def target(data):
        if len(data) < 3:
            return
        case = decode(data)
        obs = run_case(mod, case)
        STATE["n"] += 1
        for c in obs.classes:
            STATE["classes"][c] = STATE["classes"].get(c, 0) + 1
        if obs.nontrivial:
            h = case_hash(case)
            if h not in STATE["nontrivial"]:
                STATE["nontrivial"].add(h)
                if len(STATE["samples"]) < 3 and len(canon(case)) < 3000:
                    STATE["samples"].append(case)
        new = [v for v in obs.violations if v[0] not in known]
        if new:
            with open(replay_path, "w") as fh:
                json.dump({"property": pid, "case": case, "violations": [list(v) for v in new], "found_in": "atheris"}, fh, indent=1, default=str)
            _flush(stats_path)
            raise RuntimeError("VIOLATION " + new[0][0])
        if STATE["n"] % 250 == 0:
            _flush(stats_path)

    atheris.Setup([argv[0]] + argv[4:], target)
    atheris.Fuzz()


if __name__ == "__main__":
    main(sys.argv)
