"""Programs as data: operation records, their Hypothesis strategies, resolution of state-relative
volume specs, execution on the real objects and lock-step application to the exact model.

Abstract operation (JSON, produced by the strategies; cells are [id_row, col] reduced modulo geometry):
  {"op":"add"|"remove"|"aspirate"|"dispense","lw":i,"wells":WSEL,"vols":VSEL,"label":s|None,"kw":{..},"comps":None|"known"}
  {"op":"transfer","src":i,"dst":j,"sw":WSEL,"dw":WSEL,"vols":VSEL,"wash":..,"pb":..,"label":..,"kw":{..}}
  {"op":"distribute","src":i,"col":c,"dst":j,"dw":WSEL,"vol":VS,"label":..,"kw":{..}}
  {"op":"evo_aspirate"|"evo_dispense","lw":i,"col":c,"rows":[..],"tips":[..],"vols":VS|[VS..],"lc":..,"arm":0|1,"label":..}
  {"op":"comment","text":..} {"op":"wash","scheme":n} {"op":"flush"} {"op":"commit"}
WSEL: {"t":"scalar","w":cell} | {"t":"list"|"arr1","w":[cell..]} | {"t":"slice","r0","h","c0","w"} | {"t":"arr2","w":[[cell..]..]}
VSEL: {"t":"scalar","v":VS} | {"t":"list","v":[VS..]} | {"t":"arr2","v":[[VS..]..]}
VS  : number | {"f":x} | {"f0":x} | {"lim":k} | {"over":x} | "inf" | "huge"   (f0: fraction of the room the well had BEFORE the call)
Concrete operation: same keys, wells replaced by {"t":..,"ids":...}, volumes by floats.
"""
import math
from fractions import Fraction

import numpy as np
from hypothesis import strategies as st

from .lab import clone, evo_class, snapshot, LETTERS, MLab, build, cell_id, decide_add, decide_remove, id_rows, real_idx, wid

WASHES = [1, 2, 3, 4, "flush", "reuse"]


# ---------------------------------------------------------------------------------------------
# strategies for well / volume selections
# ---------------------------------------------------------------------------------------------
cell = st.tuples(st.integers(0, 15), st.integers(0, 23)).map(list)


def wsel(max_n=6, allow_2d=True):
    opts = [
        st.fixed_dictionaries({"t": st.just("scalar"), "w": cell}),
        st.fixed_dictionaries({"t": st.sampled_from(["list", "list", "arr1"]), "w": st.lists(cell, min_size=1, max_size=max_n)}),
    ]
    if allow_2d:
        opts.append(
            st.fixed_dictionaries({"t": st.just("slice"), "r0": st.integers(0, 7), "h": st.integers(1, 3), "c0": st.integers(0, 7), "w": st.integers(1, 3)})
        )
        # full-height blocks of (not necessarily adjacent) columns, like plate.wells[:, [1, 3, 5]] or [:, ::2]
        opts.append(st.fixed_dictionaries({"t": st.just("fullcols"), "c": st.lists(st.integers(0, 23), min_size=1, max_size=3, unique=True)}))
        opts.append(
            st.tuples(st.integers(1, 2), st.integers(1, 3)).flatmap(
                lambda hw: st.fixed_dictionaries({"t": st.just("arr2"), "w": st.lists(st.lists(cell, min_size=hw[1], max_size=hw[1]), min_size=hw[0], max_size=hw[0])})
            )
        )
    return st.one_of(*opts)


def vs_ok(q=0.01):
    """Volume specs that are meant to succeed. q = quantum (0.01, dyadic) or None for arbitrary floats."""
    if q == 0.01:
        absnum = st.integers(0, 3000).map(lambda i: i / 100)
    elif q:
        absnum = st.integers(0, int(30 / q)).map(lambda i: i * q)
    else:
        absnum = st.floats(0, 30, allow_nan=False)
    frac = st.fixed_dictionaries({"f": st.floats(0.0, 0.6, allow_nan=False).map(lambda x: round(x, 3))})
    return st.one_of(frac, frac, st.just(0), absnum, st.fixed_dictionaries({"f": st.just(1.0)}))


def vs_bad():
    """Volume specs that are meant to be refused (or sit exactly on / one ulp around the limit)."""
    return st.one_of(
        st.fixed_dictionaries({"over": st.sampled_from([0.001, 0.01, 0.01, 0.02, 0.5, 1.0, 10.0, 1000.0])}),
        st.fixed_dictionaries({"lim": st.sampled_from([-2, -1, 0, 0, 1, 2])}),
        st.sampled_from(["inf", "huge"]),
        # fits the well as it was before the call: two of them on one real well (a repeated id, two rows of a
        # trough column) are refused only by a check that follows the volumes within the call
        st.fixed_dictionaries({"f0": st.sampled_from([0.35, 0.4, 0.45, 0.55, 0.6, 0.75, 1.0])}),
    )


def vsel(vs, max_n=6):
    """scalar | 1-D list (also against 2-D wells) | "grid" = an array of the wells' shape"""
    return st.one_of(
        st.fixed_dictionaries({"t": st.just("scalar"), "v": vs}),
        st.fixed_dictionaries({"t": st.just("list"), "v": st.lists(vs, min_size=1, max_size=max_n)}),
        st.fixed_dictionaries({"t": st.just("grid"), "v": st.lists(vs, min_size=1, max_size=max_n)}),
        # "col2d": the volumes of a flat well list given as an n x 1 column array
        st.fixed_dictionaries({"t": st.just("col2d"), "v": st.lists(vs, min_size=1, max_size=max_n)}),
    )


label_st = st.sampled_from([None, None, "", "step 1", "Transfer µ", "x", "add 50 % v/v {0} %s", "100%", "  ", "line 1\nline 2"])


# ---------------------------------------------------------------------------------------------
# materialisation
# ---------------------------------------------------------------------------------------------
def wsel_ids(spec, sel):
    """-> (concrete selection {"t","ids"}, flat F-order list of ids)."""
    t = sel["t"]
    if t == "scalar":
        i = cell_id(spec, sel["w"])
        return {"t": "scalar", "ids": i}, [i]
    if t in ("list", "arr1"):
        ids = [cell_id(spec, c) for c in sel["w"]]
        return {"t": t, "ids": ids}, list(ids)
    R, C = id_rows(spec), spec["cols"]
    if t == "fullcols":
        cols_ = []
        for c in sel["c"]:
            if c % C not in cols_:
                cols_.append(c % C)
        rows_ = min(R, 8)
        grid = [[wid(r, c) for c in cols_] for r in range(R if R <= 8 else rows_)]
        flat = [grid[r][c] for c in range(len(grid[0])) for r in range(len(grid))]
        return {"t": "arr2", "ids": grid}, flat
    if t == "slice":
        r0 = sel["r0"] % R
        c0 = sel["c0"] % C
        h = max(1, min(sel["h"], R - r0))
        w = max(1, min(sel["w"], C - c0))
        grid = [[wid(r, c) for c in range(c0, c0 + w)] for r in range(r0, r0 + h)]
        flat = [grid[r][c] for c in range(len(grid[0])) for r in range(len(grid))]
        # executed as a slice of the labware's own `wells` array (the usual way to write it): labware.wells[r0:r0+h, c0:c0+w]
        return {"t": "arr2", "ids": grid, "slice": [r0, h, c0, w]}, flat
    else:
        width = min(len(row) for row in sel["w"])
        grid = [[cell_id(spec, c) for c in row[:width]] for row in sel["w"]]
    flat = [grid[r][c] for c in range(len(grid[0])) for r in range(len(grid))]
    return {"t": "arr2", "ids": grid}, flat


def ids_arg(csel, lw=None):
    t = csel["t"]
    if lw is not None and csel.get("slice"):
        r0, h, c0, w = csel["slice"]
        return lw.wells[r0 : r0 + h, c0 : c0 + w]
    if t == "scalar":
        return csel["ids"]
    if t == "list":
        return list(csel["ids"])
    return np.array(csel["ids"])


def _as_int(v):
    return int(v) if isinstance(v, float) and math.isfinite(v) and v == int(v) and abs(v) < 1e15 else v


def vols_arg(cvol, ints=False):
    """Concrete volume argument; with ints=True whole numbers are passed as Python ints (and all-integer
    2-D arrays with an integer dtype) - the same volumes in another presentation."""
    t = cvol["t"]

    def f32_exact(xs):
        return all(isinstance(x, float) and math.isfinite(x) and float(np.float32(x)) == x for x in xs)

    if t == "scalar":
        if not ints:
            return cvol["v"]
        v = _as_int(cvol["v"])
        # a fractional scalar comes as a numpy float64 scalar (what indexing an array gives)
        return v if isinstance(v, int) or not isinstance(v, float) else np.float64(v)
    if t == "list":
        if not ints:
            return list(cvol["v"])
        vals = [_as_int(x) for x in cvol["v"]]
        if all(isinstance(x, int) for x in vals):
            k = (len(vals) + sum(vals)) % 4
            if k == 0 and all(0 <= x < 65536 for x in vals):
                return np.array(vals, dtype=np.uint16)  # what reading a plate layout from a file may give
            if k == 1:
                return np.array(vals, dtype=np.int64)
            if k == 2 and all(abs(x) < 2**24 for x in vals):
                return np.array(vals, dtype=np.float32)
            return vals
        if f32_exact(cvol["v"]):
            return np.array(cvol["v"], dtype=np.float32)  # the same numbers in single precision
        return vals
    flat = [x for row in cvol["v"] for x in row]
    if ints and all(isinstance(_as_int(x), int) for x in flat):
        return np.array([[int(x) for x in row] for row in cvol["v"]], dtype=int)
    if ints and f32_exact(flat):
        return np.array(cvol["v"], dtype=np.float32)
    return np.array(cvol["v"], dtype=float)


def vsel_layout(vsel_, csel, n):
    """Lays the volume specs out against the wells. -> (shape tag, flat F-order list of specs)."""
    t = vsel_["t"]
    if t == "scalar":
        return "scalar", [vsel_["v"]] * n
    v = vsel_["v"]
    flat = [v[i % len(v)] for i in range(n)]
    if t == "grid" and csel["t"] == "arr2":
        return "arr2", flat  # volumes given as a 2-D array of the wells' shape
    if t == "col2d" and csel["t"] in ("list", "arr1") and n >= 1:
        return "col2d", flat
    return "list", flat


def vols_concrete(shape, flat, csel):
    if shape == "scalar":
        return {"t": "scalar", "v": flat[0]}
    if shape == "col2d":
        return {"t": "arr2", "v": [[x] for x in flat]}
    if shape == "arr2":
        grid = csel["ids"]
        H, W = len(grid), len(grid[0])
        return {"t": "arr2", "v": [[flat[c * H + r] for c in range(W)] for r in range(H)]}
    return {"t": "list", "v": list(flat)}


def quantize(v, q):
    """Largest multiple of the quantum q (0.01 or a dyadic number) that is <= v (None = no quantum)."""
    if not q or not math.isfinite(v):
        return v
    if q == 0.01:
        return math.floor(v * 100 + 1e-7) / 100
    return math.floor(v / q + 1e-9) * q


def resolve_vs(vs, have, vmin, vmax, direction, grid):
    """One volume spec -> float, relative to the running float volume `have` of the addressed well.
    grid = quantum (0.01, a dyadic number) or None/False."""
    if grid is True:
        grid = 0.01
    if isinstance(vs, (int, float)):
        return float(vs)
    if vs == "inf":
        return math.inf
    if vs == "huge":
        return 1e300
    span = (have - vmin) if direction == "remove" else (vmax - have)
    span = max(span, 0.0)
    if "f" in vs or "f0" in vs:
        v = vs.get("f", vs.get("f0")) * span
        if grid:
            v = quantize(v, grid)
            while v > span:
                v = max(0.0, quantize(v - grid, grid))
        return max(0.0, min(v, span))
    if "lim" in vs:
        v = span
        k = vs["lim"]
        for _ in range(abs(k)):
            v = math.nextafter(v, math.inf if k > 0 else -math.inf)
        return max(v, 0.0)
    if "over" in vs:
        return span + vs["over"]
    raise ValueError(vs)


# ---------------------------------------------------------------------------------------------
# the world: real objects + model
# ---------------------------------------------------------------------------------------------
class World:
    def __init__(self, specs, device="evo", wl_kwargs=None, grid=0.01, worklist=None):
        import robotools

        self.specs = specs
        self.device = device
        self.grid = 0.01 if grid is True else (grid or None)
        self.labs = [build(s) for s in specs]
        # labware that reaches the script as a deep copy / an unpickled copy; the constructed object stays alive and
        # must never change (nothing addresses it)
        self.templates = []
        for i, s in enumerate(specs):
            if s.get("clone"):
                original = self.labs[i]
                self.labs[i] = clone(original, s["clone"])
                self.templates.append((s["name"], s["clone"], original, snapshot(original)))
        self.models = [MLab(s, real=l) for s, l in zip(specs, self.labs)]
        if worklist is not None:
            self.wl = worklist
        else:
            cls = {"evo": evo_class(sum(s["cols"] for s in specs)), "fluent": robotools.FluentWorklist, "base": robotools.BaseWorklist}[device]
            self.wl = cls(**(wl_kwargs or {}))
            if specs and specs[0].get("clone"):
                self.wl = clone(self.wl, specs[0]["clone"])  # the worklist as well

    def templates_changed(self):
        """Message if an object that was only copied from has changed, else None."""
        for name, how, original, snap in self.templates:
            if snapshot(original) != snap:
                return f"labware {name!r} was copied ({how}) before the operations and only the copy was used, but the original changed: volumes {original.volumes.tolist()}, components {sorted(map(str, original.composition))}"
        return None

    def vols(self):
        return [l.volumes for l in self.labs]


class Step:
    """Outcome of one executed concrete operation."""

    def __init__(self):
        self.concrete = None
        self.exc = None
        self.pre = None
        self.post = None
        self.rec0 = 0
        self.rec1 = 0
        self.expect = "accept"  # accept | refuse-over | refuse-under | either
        self.refuse_at = None  # (lab index, real idx, pair number) for direct ops
        self.pairs = []  # [(lab index, real idx, dv, +1|-1)] in the order of the model


def _running(world, i):
    return {idx: float(v) for idx, v in np.ndenumerate(world.labs[i].volumes)}


def resolve(world, op):
    """Abstract op -> concrete op (all numbers fixed), using the current real volumes."""
    kind = op["op"]
    specs = world.specs
    g = world.grid
    if kind in ("add", "remove", "aspirate", "dispense"):
        i = op["lw"] % len(specs)
        spec = specs[i]
        csel, flat = wsel_ids(spec, op["wells"])
        shape, vspecs = vsel_layout(op["vols"], csel, len(flat))
        run = _running(world, i)
        run0 = dict(run)
        direction = "remove" if kind in ("remove", "aspirate") else "add"
        vols = []
        for w, vs in zip(flat, vspecs):
            idx = real_idx(spec, [LETTERS.index(w[0]), int(w[1:]) - 1])
            v = resolve_vs(vs, run0[idx] if isinstance(vs, dict) and "f0" in vs else run[idx], spec["min"], spec["max"], direction, g)
            if "cap" in op and math.isfinite(v):
                v = min(v, quantize(float(op["cap"]), g))
            vols.append(v)
            if math.isfinite(v):
                run[idx] = run[idx] - v if direction == "remove" else run[idx] + v
        if shape == "scalar":
            # one scalar for all wells: use the smallest resolved value so that a well-meant spec fits everywhere
            if isinstance(op["vols"]["v"], dict) and ("f" in op["vols"]["v"]):
                run = _running(world, i)
                counts = {}
                for w in flat:
                    idx = real_idx(spec, [LETTERS.index(w[0]), int(w[1:]) - 1])
                    counts[idx] = counts.get(idx, 0) + 1
                best = None
                for idx, k in counts.items():
                    span = (run[idx] - spec["min"]) if direction == "remove" else (spec["max"] - run[idx])
                    v = resolve_vs(op["vols"]["v"], run[idx], spec["min"], spec["max"], direction, g) / k
                    v = quantize(v, g)
                    best = v if best is None else min(best, v)
                if "cap" in op:
                    best = min(best, quantize(float(op["cap"]), g))
                vols = [max(0.0, best)] * len(flat)
            else:
                vols = [vols[0]] * len(flat)
        if op.get("ints") and len(flat) % 2 == 0 and all(math.isfinite(v) for v in vols):
            # whole microlitres (rounded down: still within the limits), so that the volumes can travel as an integer array
            vols = [float(math.floor(v)) for v in vols]
        elif op.get("ints") and not g and len(flat) % 2 == 1 and all(math.isfinite(v) and abs(v) < 1e30 for v in vols):
            # the numbers a single-precision array holds (what is given IS the float32 value)
            vols = [float(np.float32(v)) for v in vols]
        conc = {"op": kind, "lw": i, "wells": csel, "vols": vols_concrete(shape, vols, csel), "label": op.get("label"), "kw": dict(op.get("kw") or {}), "ints": bool(op.get("ints"))}
        if op.get("comps") and kind in ("add", "dispense"):
            conc["comps"] = op["comps"]
        return conc
    if kind == "transfer":
        si, di = op["src"] % len(specs), op["dst"] % len(specs)
        ss, ds = specs[si], specs[di]
        cs, sflat = wsel_ids(ss, op["sw"])
        cd, dflat = wsel_ids(ds, op["dw"])
        n = max(len(sflat), len(dflat))
        if n == 1 and op["vols"]["t"] != "scalar" and len(op["vols"]["v"]) > 1 and cs["t"] != "arr2" and cd["t"] != "arr2":
            n = len(op["vols"]["v"])  # one source well, one destination well, several volumes
        bs = sflat * n if len(sflat) == 1 else sflat
        bd = dflat * n if len(dflat) == 1 else dflat
        if len(bs) != len(bd):
            # make the lengths compatible (the malformed-length case is C07's subject)
            m = min(len(bs), len(bd))
            if cs["t"] == "arr2" or cd["t"] == "arr2":
                # fall back to flat lists of equal length
                cs, cd = {"t": "list", "ids": sflat[:m]}, {"t": "list", "ids": dflat[:m]}
            else:
                if cs["t"] != "scalar":
                    cs = {"t": cs["t"], "ids": cs["ids"][:m]}
                if cd["t"] != "scalar":
                    cd = {"t": cd["t"], "ids": cd["ids"][:m]}
            bs, bd = bs[:m], bd[:m]
            n = m
        ref = cs if cs["t"] == "arr2" else cd
        shape, vspecs = vsel_layout(op["vols"], ref, n)
        if shape == "arr2" and (ref["t"] != "arr2" or len(ref["ids"]) * len(ref["ids"][0]) != n):
            shape = "list"
        srun, drun = _running(world, si), _running(world, di)
        if si == di:
            drun = dict(srun)
        vols = []
        for s, d, vs in zip(bs, bd, vspecs):
            sidx = real_idx(ss, [LETTERS.index(s[0]), int(s[1:]) - 1])
            didx = real_idx(ds, [LETTERS.index(d[0]), int(d[1:]) - 1])
            if isinstance(vs, dict) and "f" in vs:
                a = resolve_vs(vs, srun[sidx], ss["min"], ss["max"], "remove", g)
                b = resolve_vs({"f": 1.0}, drun[didx], ds["min"], ds["max"], "add", g)
                v = min(a, b)
            elif isinstance(vs, dict) and op.get("fail_side") == "dst":
                v = resolve_vs(vs, drun[didx], ds["min"], ds["max"], "add", g)
            else:
                v = resolve_vs(vs, srun[sidx], ss["min"], ss["max"], "remove", g)
            if "cap" in op and math.isfinite(v):
                v = min(v, quantize(float(op["cap"]), g))
            vols.append(v)
            if math.isfinite(v):
                srun[sidx] -= v
                drun[didx] += v
        if shape == "scalar":
            vols = [min(vols)] * n if isinstance(op["vols"]["v"], dict) and "f" in op["vols"]["v"] else [vols[0]] * n
            # a scalar "fraction" volume used n times: divide so that repeated wells still fit
            if isinstance(op["vols"]["v"], dict) and "f" in op["vols"]["v"]:
                v = vols[0] / max(1, n)
                vols = [quantize(v, g)] * n
        return {
            "op": "transfer",
            "src": si,
            "dst": di,
            "sw": cs,
            "dw": cd,
            "pairs": [[s, d] for s, d in zip(bs, bd)],
            "vols": vols_concrete(shape, vols, ref),
            "flatvols": vols,
            "wash": op.get("wash", 1),
            "pb": op.get("pb", "auto"),
            "label": op.get("label"),
            "kw": dict(op.get("kw") or {}),
            "ints": bool(op.get("ints")),
        }
    if kind == "distribute":
        si, di = op["src"] % len(specs), op["dst"] % len(specs)
        ss, ds = specs[si], specs[di]
        col = op["col"] % ss["cols"]
        cd, dflat = wsel_ids(ds, op["dw"])
        # pairwise distinct device positions (the property's quantifier); for Fluent troughs the column decides
        seen, keep = set(), []
        distinct_on = op.get("distinct_on") or world.device
        for w in dflat:
            key = w[1:] if (ds["kind"] == "trough" and distinct_on == "fluent") else w
            if key not in seen:
                seen.add(key)
                keep.append(w)
        if keep != dflat:
            cd = {"t": "list", "ids": keep}
        dflat = keep
        n = len(dflat)
        srun, drun = _running(world, si), _running(world, di)
        sidx = (0, col)
        vs = op["vol"]
        if isinstance(vs, dict) and "f" in vs:
            a = resolve_vs(vs, srun.get(sidx, 0.0), ss["min"], ss["max"], "remove", False) / n
            counts = {}
            for w in dflat:
                didx = real_idx(ds, [LETTERS.index(w[0]), int(w[1:]) - 1])
                counts[didx] = counts.get(didx, 0) + 1
            for didx, k in counts.items():
                room = ds["max"] - drun[didx]
                if si == di and didx == sidx:
                    room = ds["max"] - drun[didx]
                a = min(a, max(0.0, room) / k)
            v = quantize(min(a, float(op.get("cap", 1e18))), g)
        elif isinstance(vs, dict):
            if op.get("fail_side") == "dst":
                w = dflat[0]
                didx = real_idx(ds, [LETTERS.index(w[0]), int(w[1:]) - 1])
                v = resolve_vs(vs, drun[didx], ds["min"], ds["max"], "add", g)
            else:
                v = resolve_vs(vs, srun.get(sidx, 0.0), ss["min"], ss["max"], "remove", g)
                if math.isfinite(v) and "over" not in vs:
                    v = v / n
                elif math.isfinite(v):
                    v = (resolve_vs({"lim": 0}, srun.get(sidx, 0.0), ss["min"], ss["max"], "remove", g)) / n + vs["over"]
        else:
            v = resolve_vs(vs, 0, 0, 0, "remove", g)
        if g and math.isfinite(v):
            v = quantize(v + 1e-9, g)  # R records print the volume unrounded: stay on the grid
        return {"op": "distribute", "src": si, "col": col, "dst": di, "dw": cd, "dflat": dflat, "vol": v, "label": op.get("label") or "", "kw": dict(op.get("kw") or {})}
    if kind in ("evo_aspirate", "evo_dispense"):
        i = op["lw"] % len(specs)
        spec = specs[i]
        R = id_rows(spec)
        col = op["col"] % spec["cols"]
        rows = sorted({r % R for r in op["rows"]})[:8]
        tips = sorted(set(op["tips"]))[: len(rows)]
        k = len(tips)
        rows = rows[:k]
        for extra in range(1, 9):
            if len(tips) >= len(rows):
                break
            if extra not in tips:
                tips = sorted(tips + [extra])
        wells = [wid(r, col) for r in rows]
        direction = "remove" if kind == "evo_aspirate" else "add"
        run = _running(world, i)
        vsl = op["vols"]
        per = vsl if isinstance(vsl, list) else [vsl] * len(wells)
        vols = []
        for j, w in enumerate(wells):
            idx = real_idx(spec, [rows[j], col])
            v = resolve_vs(per[j % len(per)], run[idx], spec["min"], spec["max"], direction, g)
            if isinstance(per[j % len(per)], dict) and "f" in per[j % len(per)]:
                v = min(v, float(op.get("cap", 1e18)))
            vols.append(v)
            if math.isfinite(v):
                run[idx] = run[idx] - v if direction == "remove" else run[idx] + v
        if not isinstance(vsl, list):
            if isinstance(vsl, dict) and "f" in vsl:
                counts = {}
                for j in range(len(wells)):
                    idx = real_idx(spec, [rows[j], col])
                    counts[idx] = counts.get(idx, 0) + 1
                run0 = _running(world, i)
                v = min(resolve_vs(vsl, run0[idx], spec["min"], spec["max"], direction, False) / k_ for idx, k_ in counts.items())
                vols = quantize(min(v, float(op.get("cap", 1e18))), g)
            else:
                vols = vols[0]
        if (op["col"] + len(op["rows"])) % 2 == 1 and len(wells) >= 2:
            # the same call with wells, tips and per-tip volumes listed from the bottom up (pairs stay together)
            wells, tips = wells[::-1], tips[::-1]
            if isinstance(vols, list):
                vols = vols[::-1]
        conc = {"op": kind, "lw": i, "wells": wells, "pos": list(spec.get("pos", [10, 1])), "tips": tips, "vols": vols, "lc": op.get("lc", "Water"), "arm": op.get("arm", 0), "label": op.get("label"), "vols_container": op.get("vols_container", "list")}
        if op.get("comps") and kind == "evo_dispense":
            conc["comps"] = op["comps"]
        return conc
    return dict(op)


# ---------------------------------------------------------------------------------------------
# expectation for direct operations (three-valued, sequential)
# ---------------------------------------------------------------------------------------------
def flat_pairs(world, conc):
    """(lab index, real idx, dv, sign) in the model's pairing order for add/remove/aspirate/dispense/evo_*."""
    kind = conc["op"]
    if kind in ("add", "remove", "aspirate", "dispense"):
        i = conc["lw"]
        spec = world.specs[i]
        csel = conc["wells"]
        if csel["t"] == "scalar":
            flat = [csel["ids"]]
        elif csel["t"] == "arr2":
            gridw = csel["ids"]
            flat = [gridw[r][c] for c in range(len(gridw[0])) for r in range(len(gridw))]
        else:
            flat = list(csel["ids"])
        cv = conc["vols"]
        if cv["t"] == "scalar":
            vols = [cv["v"]] * len(flat)
        elif cv["t"] == "arr2":
            gv = cv["v"]
            vols = [gv[r][c] for c in range(len(gv[0])) for r in range(len(gv))]
        else:
            vols = list(cv["v"])
        sign = -1 if kind in ("remove", "aspirate") else +1
        return [(i, real_idx(spec, [LETTERS.index(w[0]), int(w[1:]) - 1]), v, sign) for w, v in zip(flat, vols)]
    if kind in ("evo_aspirate", "evo_dispense"):
        i = conc["lw"]
        spec = world.specs[i]
        vols = conc["vols"] if isinstance(conc["vols"], list) else [conc["vols"]] * len(conc["wells"])
        sign = -1 if kind == "evo_aspirate" else +1
        return [(i, real_idx(spec, [LETTERS.index(w[0]), int(w[1:]) - 1]), v, sign) for w, v in zip(conc["wells"], vols)]
    if kind == "distribute":
        ss, ds = world.specs[conc["src"]], world.specs[conc["dst"]]
        n = len(conc["dflat"])
        out = [(conc["src"], (0, conc["col"]), conc["vol"] * n, -1)]
        for w in conc["dflat"]:
            out.append((conc["dst"], real_idx(ds, [LETTERS.index(w[0]), int(w[1:]) - 1]), conc["vol"], +1))
        return out
    if kind == "transfer":
        ss, ds = world.specs[conc["src"]], world.specs[conc["dst"]]
        out = []
        for (s, d), v in zip(conc["pairs"], conc["flatvols"]):
            out.append((conc["src"], real_idx(ss, [LETTERS.index(s[0]), int(s[1:]) - 1]), v, -1))
            out.append((conc["dst"], real_idx(ds, [LETTERS.index(d[0]), int(d[1:]) - 1]), v, +1))
        return out
    return []


def expect_sequential(world, pairs):
    """Sequential three-valued expectation: -> (verdict, k) with verdict in accept / refuse-over / refuse-under / either;
    k = index of the first pair that must be refused (or None)."""
    run = {}
    for k, (i, idx, dv, sign) in enumerate(pairs):
        key = (i, idx)
        if key not in run:
            run[key] = float(world.labs[i].volumes[idx])
        spec = world.specs[i]
        d = decide_add(run[key], dv, spec["max"]) if sign > 0 else decide_remove(run[key], dv, spec["min"])
        if d == "refuse":
            return ("refuse-over" if sign > 0 else "refuse-under"), k
        if d == "either":
            return "either", k
        run[key] = run[key] + dv if sign > 0 else run[key] - dv
    return "accept", None


def expect_transfer(world, conc):
    """Order-independent sufficient conditions only (the sub-step order is the implementation's business)."""
    pairs = flat_pairs(world, conc)
    out_, in_ = {}, {}
    for i, idx, dv, sign in pairs:
        key = (i, idx)
        if not math.isfinite(dv):
            return "refuse-any"
        (out_ if sign < 0 else in_)[key] = (out_ if sign < 0 else in_).get(key, Fraction(0)) + Fraction(dv)
    slack = Fraction(1, 10**6)
    accept = True
    refuse = False
    for key in set(out_) | set(in_):
        i, idx = key
        spec = world.specs[i]
        have = Fraction(float(world.labs[i].volumes[idx]))
        o, a = out_.get(key, Fraction(0)), in_.get(key, Fraction(0))
        if have - o < Fraction(spec["min"]) + slack and o > 0:
            accept = False
        if have + a > Fraction(spec["max"]) - slack and a > 0:
            accept = False
        if o > 0 and have + a - o < Fraction(spec["min"]) - slack:
            refuse = True
        if a > 0 and have - o + a > Fraction(spec["max"]) + slack:
            refuse = True
    if refuse:
        return "refuse-any"
    return "accept" if accept else "either"


# ---------------------------------------------------------------------------------------------
# execution
# ---------------------------------------------------------------------------------------------
def known_comp(names_pool, k):
    """Deterministic known composition number k: dict name -> Fraction (sums to 1)."""
    table = [
        {"water": Fraction(1)},
        {"glucose": Fraction(1, 4), "water": Fraction(3, 4)},
        {"buffer": Fraction(1, 2), "salt": Fraction(1, 2)},
        {"water": Fraction(1, 8), "dye": Fraction(7, 8)},
        {"glucose": Fraction(1)},
    ]
    return table[k % len(table)]


def execute(world, conc):
    """Runs one concrete operation on the real objects. Returns Step (exception captured)."""
    st_ = Step()
    st_.concrete = conc
    st_.pre = world.vols()
    wl = world.wl
    st_.rec0 = len(wl)
    kind = conc["op"]
    labs = world.labs
    try:
        if kind in ("add", "remove"):
            lw = labs[conc["lw"]]
            args = (ids_arg(conc["wells"], lw), vols_arg(conc["vols"], conc.get("ints")))
            if kind == "add":
                comps = None
                if conc.get("comps"):
                    comps = _comps_arg(world, conc)
                lw.add(*args, label=conc.get("label"), compositions=comps)
            else:
                lw.remove(*args, label=conc.get("label"))
        elif kind in ("aspirate", "dispense"):
            lw = labs[conc["lw"]]
            kw = dict(conc.get("kw") or {})
            if kind == "dispense" and conc.get("comps"):
                kw["compositions"] = _comps_arg(world, conc)
            getattr(wl, kind)(lw, ids_arg(conc["wells"], lw), vols_arg(conc["vols"], conc.get("ints")), label=conc.get("label"), **kw)
        elif kind == "transfer":
            wl.transfer(
                labs[conc["src"]],
                ids_arg(conc["sw"], labs[conc["src"]]),
                labs[conc["dst"]],
                ids_arg(conc["dw"], labs[conc["dst"]]),
                vols_arg(conc["vols"], conc.get("ints")),
                label=conc.get("label"),
                wash_scheme=conc.get("wash", 1),
                partition_by=conc.get("pb", "auto"),
                **(conc.get("kw") or {}),
            )
        elif kind == "distribute":
            wl.distribute(labs[conc["src"]], conc["col"], labs[conc["dst"]], ids_arg(conc["dw"], labs[conc["dst"]]), volume=conc["vol"], label=conc.get("label") or "", **(conc.get("kw") or {}))
        elif kind in ("evo_aspirate", "evo_dispense"):
            vols_ = conc["vols"]
            if isinstance(vols_, list) and conc.get("vols_container") == "tuple":
                vols_ = tuple(vols_)
            elif isinstance(vols_, list) and conc.get("vols_container") == "ndarray":
                vols_ = np.array(vols_, dtype=float)
            extra = {"compositions": _comps_arg(world, conc)} if (conc.get("comps") and kind == "evo_dispense") else {}
            getattr(wl, kind)(labs[conc["lw"]], list(conc["wells"]), tuple(conc["pos"]), list(conc["tips"]), vols_, conc["lc"], arm=conc.get("arm", 0), label=conc.get("label"), **extra)
        elif kind == "comment":
            wl.comment(conc["text"])
        elif kind == "wash":
            wl.wash(conc.get("scheme", 1))
        elif kind == "flush":
            wl.flush()
        elif kind == "commit":
            wl.commit()
        else:
            raise ValueError("unknown op " + kind)
    except Exception as exc:  # captured; the property decides what it means
        st_.exc = exc
    st_.rec1 = len(wl)
    st_.post = world.vols()
    return st_


# ---------------------------------------------------------------------------------------------
def _comps_arg(world, conc):
    """The `compositions` argument of add/dispense: known compositions, or forms that say "nothing known"
    ("empty": an empty dict per well, "nones": None per well)."""
    n = len(flat_pairs(world, conc))
    if conc["comps"] == "empty":
        return [{} for _ in range(n)]
    if conc["comps"] == "nones":
        return [None for _ in range(n)]
    return [{k: float(v) for k, v in known_comp(None, conc["comps"] + j).items()} for j in range(n)]


# model application
# ---------------------------------------------------------------------------------------------
def model_apply(world, conc):
    """Applies an accepted concrete operation to the exact model (volumes and contents)."""
    kind = conc["op"]
    M = world.models
    if kind in ("remove", "aspirate", "evo_aspirate"):
        for i, idx, dv, _ in flat_pairs(world, conc):
            M[i].remove(idx, Fraction(dv))
    elif kind in ("add", "dispense", "evo_dispense"):
        for j, (i, idx, dv, _) in enumerate(flat_pairs(world, conc)):
            amounts = None
            if conc.get("comps") and not isinstance(conc["comps"], str):
                amounts = {k: f * Fraction(dv) for k, f in known_comp(None, conc["comps"] + j).items()}
            M[i].add(idx, Fraction(dv), amounts)
    elif kind == "transfer":
        ss, ds = world.specs[conc["src"]], world.specs[conc["dst"]]
        for (s, d), v in zip(conc["pairs"], conc["flatvols"]):
            sidx = real_idx(ss, [LETTERS.index(s[0]), int(s[1:]) - 1])
            didx = real_idx(ds, [LETTERS.index(d[0]), int(d[1:]) - 1])
            taken = M[conc["src"]].remove(sidx, Fraction(v))
            M[conc["dst"]].add(didx, Fraction(v), taken)
    elif kind == "distribute":
        ds = world.specs[conc["dst"]]
        n = len(conc["dflat"])
        v = Fraction(conc["vol"])
        taken = M[conc["src"]].remove((0, conc["col"]), v * n)
        for w in conc["dflat"]:
            didx = real_idx(ds, [LETTERS.index(w[0]), int(w[1:]) - 1])
            part = None if taken is None else {k: a / n for k, a in taken.items()}
            M[conc["dst"]].add(didx, v, part)


def model_resync(world):
    """After a refused operation: take the real volumes as the new basis (contents become unknown where they changed)."""
    for m, l in zip(world.models, world.labs):
        vols = l.volumes
        for idx in m.wells():
            new = Fraction(float(vols[idx]))
            if new != m.vol[idx]:
                m.vol[idx] = new
                m.comp[idx] = None


# ---------------------------------------------------------------------------------------------
# operation strategies
# ---------------------------------------------------------------------------------------------
def vs_mixed(q=0.01):
    ok = vs_ok(q)
    return st.one_of(ok, ok, ok, vs_bad())


def op_direct(vs, kinds=("add", "remove", "aspirate", "dispense"), comps=False, max_n=6, labels=label_st):
    d = {
        "op": st.sampled_from(list(kinds)),
        "lw": st.integers(0, 2),
        "wells": wsel(max_n=max_n),
        "vols": vsel(vs, max_n=max_n),
        "label": labels,
        "ints": st.booleans(),
    }
    if comps:
        d["comps"] = st.one_of(st.none(), st.integers(1, 5))
    return st.fixed_dictionaries(d)


def op_transfer(vs, max_n=6, labels=label_st, kw=st.just({})):
    return st.fixed_dictionaries(
        {
            "op": st.just("transfer"),
            "src": st.integers(0, 2),
            "dst": st.integers(0, 2),
            "sw": wsel(max_n=max_n),
            "dw": wsel(max_n=max_n),
            "vols": vsel(vs, max_n=max_n),
            "wash": st.sampled_from(WASHES),
            "pb": st.sampled_from(["auto", "source", "destination"]),
            "label": labels,
            "fail_side": st.sampled_from(["src", "dst"]),
            "kw": kw,
            "ints": st.booleans(),
        }
    )


def op_distribute(vs, max_n=6, labels=label_st):
    return st.fixed_dictionaries(
        {
            "op": st.just("distribute"),
            "src": st.integers(0, 2),
            "col": st.integers(0, 5),
            "dst": st.integers(0, 2),
            "dw": wsel(max_n=max_n),
            "vol": vs,
            "label": labels,
            "fail_side": st.sampled_from(["src", "dst"]),
            "kw": st.fixed_dictionaries({}, optional={"multi_disp": st.integers(1, 12), "diti_reuse": st.integers(1, 4), "liquid_class": st.sampled_from(["", "Water free"]), "direction": st.sampled_from(["left_to_right", "right_to_left"])}),
        }
    )


def op_evo(vs, labels=label_st, min_tips=1):
    return st.fixed_dictionaries(
        {
            "op": st.sampled_from(["evo_aspirate", "evo_dispense"]),
            "lw": st.integers(0, 2),
            "col": st.integers(0, 11),
            "rows": st.lists(st.integers(0, 15), min_size=min_tips, max_size=4, unique=min_tips > 1),
            "tips": st.lists(st.integers(1, 8), min_size=min_tips, max_size=4, unique=min_tips > 1),
            "vols": st.one_of(vs, st.lists(vs, min_size=1, max_size=4)) if min_tips == 1 else st.lists(vs, min_size=4, max_size=4),
            "lc": st.sampled_from(["Water", "LC 2"]),
            "arm": st.sampled_from([0, 0, 1]),
            "label": labels,
        }
    )


def op_misc():
    return st.one_of(
        st.fixed_dictionaries({"op": st.just("comment"), "text": st.sampled_from(["hello", "two\nlines", "µL step", ""])}),
        st.fixed_dictionaries({"op": st.just("wash"), "scheme": st.integers(1, 4)}),
        st.just({"op": "flush"}),
        st.just({"op": "commit"}),
    )


def trough_indices(specs):
    return [i for i, s in enumerate(specs) if s["kind"] == "trough"]


def ops_list(op, lo, hi):
    """A program of lo..hi operations with an explicitly drawn length (Hypothesis' own list lengths are bimodal:
    about 40 % singletons, which is poor for history properties)."""
    return st.integers(lo, hi).flatmap(lambda n: st.lists(op, min_size=n, max_size=n))
