"""Runner: seeding, sharding, tiers, corpus replay, known findings, evidence, replay files.

A property module (vf/props/cXX.py) provides

    PID, RULE, ASSUMPTIONS (list of str), BUDGET = {"quick": (shards, n), "thorough": (shards, n)}
    strategy(tier)            -> Hypothesis strategy of JSON-serialisable cases (or None)
    enumerate_cases(tier)     -> iterable of cases of a finite sub-space (optional)
    ENUM_SPACE                -> text describing that finite sub-space (optional)
    check_case(case)          -> Obs  (all violations of the case, non-trivial flag, class labels)
    KNOWN_KINDS               -> {violation kind: finding id} recognised shapes of open findings
"""
import collections
import glob
import hashlib
import importlib
import json
import multiprocessing
import os
import subprocess
import sys
import time
import traceback

from . import REPO, ROOT, init_env

init_env()

LEVEL = "exploration"


from .core import HarnessError, Obs, canon, case_hash  # noqa: E402


class ViolationFound(Exception):
    pass


def load_module(pid):
    return importlib.import_module(f"vf.props.{pid.lower()}")


# ---------------------------------------------------------------------------------------------
# known findings
# ---------------------------------------------------------------------------------------------
def load_known(pid):
    """Returns {match tag: (finding id, text)} of the *open* entries for this property."""
    res = {}
    path = os.path.join(ROOT, "KNOWN_FINDINGS.txt")
    if not os.path.exists(path):
        return res
    for line in open(path, encoding="utf-8"):
        line = line.strip()
        if not line.startswith("open:"):
            continue
        fields = dict(f.split("=", 1) for f in line.split() if "=" in f)
        if fields.get("property") == pid and "match" in fields:
            res[fields["match"]] = (fields.get("id", "?"), line[len("open:") :].strip())
    return res


# ---------------------------------------------------------------------------------------------
# running one case
# ---------------------------------------------------------------------------------------------
def _innermost_in_repo(exc) -> bool:
    tb = traceback.extract_tb(exc.__traceback__)
    if not tb:
        return False
    # the exception counts as "raised by the code under test" when the innermost frame that is
    # neither numpy nor the standard library lies in the tree under test
    for frame in reversed(tb):
        fn = os.path.abspath(frame.filename)
        if fn.startswith(REPO + os.sep):
            return True
        if fn.startswith(os.path.join(ROOT, "vf")):
            return False
    return False


def run_case(mod, case) -> Obs:
    try:
        obs = mod.check_case(case)
    except (HarnessError, KeyboardInterrupt):
        raise
    except Exception as exc:  # noqa
        if _innermost_in_repo(exc):
            # a call the property module expected to succeed blew up inside robotools
            obs = Obs()
            obs.bad(
                f"{mod.PID}/crash-{type(exc).__name__}",
                "unexpected exception from the code under test: "
                + "".join(traceback.format_exception_only(type(exc), exc)).strip()
                + " @ "
                + " <- ".join(f"{os.path.basename(f.filename)}:{f.lineno}" for f in reversed(traceback.extract_tb(exc.__traceback__)[-4:])),
            )
        else:
            raise HarnessError("".join(traceback.format_exception(type(exc), exc, exc.__traceback__)))
    if not isinstance(obs, Obs):
        raise HarnessError(f"check_case returned {type(obs)}")
    return obs


class Stats:
    def __init__(self):
        self.evaluations = 0
        self.units = 0
        self.nontrivial = set()
        self.classes = collections.Counter()
        self.samples = []
        self.known_seen = collections.Counter()
        self.failures = []  # list of dict(case=..., violations=[...])
        self.parts = collections.Counter()
        self.notes = []

    def record(self, case, obs, part, known):
        self.evaluations += 1
        self.units += obs.units
        self.parts[part] += 1
        for c in obs.classes:
            self.classes[c] += 1
        if obs.nontrivial:
            h = case_hash(case)
            if h not in self.nontrivial:
                self.nontrivial.add(h)
                n = len(self.nontrivial)
                if n <= 2 or (n in (50, 500, 5000) and len(self.samples) < 5):
                    cs = canon(case)
                    if len(cs) < 6000:
                        self.samples.append(case)
        new = []
        for kind, msg in obs.violations:
            if kind in known:
                self.known_seen[kind] += 1
            else:
                new.append((kind, msg))
        return new

    def merge(self, other):
        self.evaluations += other.evaluations
        self.units += other.units
        self.nontrivial |= other.nontrivial
        self.classes.update(other.classes)
        for s in other.samples:
            if len(self.samples) < 6:
                self.samples.append(s)
        self.known_seen.update(other.known_seen)
        self.failures.extend(other.failures)
        self.parts.update(other.parts)
        self.notes.extend(other.notes)


def run_shard(args):
    """Runs the enumerated sub-space slice and the Hypothesis search of one shard."""
    pid, tier, seed, shard, nshards, n_examples = args
    init_env()
    mod = load_module(pid)
    known = load_known(pid)
    st = Stats()
    try:
        # finite sub-space, sliced by index
        enum = getattr(mod, "enumerate_cases", None)
        if enum is not None:
            for i, case in enumerate(enum(tier)):
                if i % nshards != shard:
                    continue
                obs = run_case(mod, case)
                new = st.record(case, obs, "enumerated", known)
                if new:
                    st.failures.append({"case": case, "violations": new, "part": "enumerated"})
                    if len(st.failures) >= 3:
                        break
        # generated search; a module may define STRATA (a list of stratum keys): the examples are then split
        # evenly over the strata, each searched by its own Hypothesis run with the stratum fixed - Hypothesis'
        # example generation is strongly autocorrelated, so drawn "kind" choices do not guarantee coverage
        strata = getattr(mod, "STRATA", None)
        plan = list(enumerate(strata)) if strata else [(0, None)]
        per = n_examples if not strata else max(1, -(-n_examples // len(strata)))
        if getattr(mod, "strategy", None) and n_examples > 0 and not st.failures:
            import hypothesis
            from hypothesis import HealthCheck, Phase, given, settings

            for si, stratum in plan:
                strat = mod.strategy(tier, stratum) if strata else mod.strategy(tier)
                if strat is None:
                    continue
                box = {}

                def body(case):
                    obs = run_case(mod, case)
                    new = st.record(case, obs, "generated", known)
                    if new:
                        box["case"] = case
                        box["violations"] = new
                        raise ViolationFound(new[0][0])

                test = given(strat)(body)
                test = settings(
                    max_examples=per,
                    database=None,
                    deadline=None,
                    derandomize=False,
                    report_multiple_bugs=False,
                    print_blob=False,
                    suppress_health_check=[HealthCheck.too_slow, HealthCheck.data_too_large, HealthCheck.large_base_example],
                    phases=[Phase.generate, Phase.shrink],
                )(test)
                test = hypothesis.seed((seed * 1000 + shard) * 100 + si)(test)
                try:
                    test()
                except ViolationFound:
                    st.failures.append({"case": box["case"], "violations": box["violations"], "part": "generated"})
                    break
                except HarnessError:
                    raise
                except BaseException as exc:  # health check, flaky, ...
                    if "case" in box and type(exc).__name__ in ("Flaky", "FlakyFailure", "FlakyReplay"):
                        raise HarnessError("flaky case (non-deterministic check): " + canon(box["case"])[:2000])
                    raise HarnessError("".join(traceback.format_exception(type(exc), exc, exc.__traceback__)))
        extra = getattr(mod, "extra_campaign", None)
        if extra is not None and not st.failures:
            extra(tier, seed, shard, nshards, st, known)
    except HarnessError as exc:
        return {"error": str(exc)}
    return {"stats": st}


# ---------------------------------------------------------------------------------------------
# evidence / replay files
# ---------------------------------------------------------------------------------------------
def tree_id():
    try:
        head = subprocess.run(["git", "-C", REPO, "rev-parse", "HEAD"], capture_output=True, text=True, timeout=20).stdout.strip()
        dirty = subprocess.run(["git", "-C", REPO, "status", "--porcelain", "--untracked-files=no"], capture_output=True, text=True, timeout=20).stdout.strip()
        return f"{head[:12]}{'+dirty' if dirty else ''}"
    except Exception:
        return "unknown"


def write_replay(pid, seed, failure):
    os.makedirs(os.path.join(ROOT, "replays"), exist_ok=True)
    rel = os.path.join("replays", f"{pid}-s{seed}-{case_hash(failure['case'])[:8]}.json")
    with open(os.path.join(ROOT, rel), "w", encoding="utf-8") as fh:
        json.dump(
            {"property": pid, "case": failure["case"], "violations": [list(v) for v in failure["violations"]], "found_in": failure.get("part")},
            fh,
            indent=1,
            sort_keys=True,
            default=str,
        )
    return rel


def write_evidence(mod, tier, seed, st, wall, n_viol, exhaustive, extra_assumptions):
    evdir = os.environ.get("VERIF_EVIDENCE_DIR") or os.path.join(ROOT, "evidence")
    os.makedirs(evdir, exist_ok=True)
    cov = {
        "evaluations": st.evaluations,
        "distinct_nontrivial": len(st.nontrivial),
        "rule": mod.RULE,
        "samples": st.samples[:6],
        "elementary_checks": st.units,
        "parts": dict(st.parts),
        "classes": dict(sorted(st.classes.items())),
        "known_findings_seen": dict(st.known_seen),
    }
    if exhaustive is not None:
        cov["exhaustive"] = bool(exhaustive)
        cov["exhaustive_space"] = getattr(mod, "ENUM_SPACE", {}).get(tier, "") if isinstance(getattr(mod, "ENUM_SPACE", None), dict) else getattr(mod, "ENUM_SPACE", "")
    if st.notes:
        cov["notes"] = sorted(set(st.notes))[:20]
    ev = {
        "property_id": mod.PID,
        "tier": tier,
        "seed": seed,
        "level": LEVEL,
        "coverage": cov,
        "assumptions": list(getattr(mod, "ASSUMPTIONS", [])) + extra_assumptions,
        "wall_s": round(wall, 2),
        "violations": n_viol,
    }
    path = os.path.join(evdir, f"{mod.PID}.json")
    try:
        import jsonschema

        schema_path = os.path.join(ROOT, "schemas", "EVIDENCE.schema.json")
        if os.path.exists(schema_path) and not n_viol:
            jsonschema.validate(json.loads(json.dumps(ev, default=str)), json.load(open(schema_path)))
    except ImportError:
        pass
    with open(path, "w", encoding="utf-8") as fh:
        json.dump(ev, fh, indent=1, sort_keys=True, default=str)


# ---------------------------------------------------------------------------------------------
# commands
# ---------------------------------------------------------------------------------------------
def cmd_replay(pid, path):
    mod = load_module(pid)
    known = load_known(pid)
    data = json.load(open(path, encoding="utf-8"))
    case = data["case"] if isinstance(data, dict) and "case" in data else data
    obs = run_case(mod, case)
    new = [v for v in obs.violations if v[0] not in known]
    for kind, msg in obs.violations:
        tag = "known" if kind in known else "VIOLATES"
        print(f"  [{tag}] {kind}: {msg}")
    print(f"classes={obs.classes} nontrivial={obs.nontrivial}")
    if new:
        print(f"VIOLATION property={pid} replay={path}")
        return 1
    print("replay: no violation")
    return 0


def cmd_survey(pid, n):
    """Development aid: keep generating, bucket violations by kind, keep the smallest example."""
    import hypothesis
    from hypothesis import HealthCheck, Phase, given, settings

    mod = load_module(pid)
    seed = int(os.environ.get("VERIF_SEED", "1"))
    buckets = {}
    counts = collections.Counter()
    st = Stats()

    def consider(case):
        obs = run_case(mod, case)
        st.record(case, obs, "survey", {})
        for kind, msg in obs.violations:
            counts[kind] += 1
            size = len(canon(case))
            if kind not in buckets or size < buckets[kind][0]:
                buckets[kind] = (size, case, msg)

    enum = getattr(mod, "enumerate_cases", None)
    if enum is not None:
        for i, case in enumerate(enum("quick")):
            consider(case)
    strata = getattr(mod, "STRATA", None)
    plan = list(enumerate(strata)) if strata else [(0, None)]
    for si, stratum in plan:
        if not getattr(mod, "strategy", None):
            break
        strat = mod.strategy("quick", stratum) if strata else mod.strategy("quick")
        if strat is None:
            continue
        per = n if not strata else max(1, -(-n // len(strata)))
        test = hypothesis.seed(seed * 100 + si)(
            settings(max_examples=per, database=None, deadline=None, phases=[Phase.generate], suppress_health_check=list(HealthCheck))(given(strat)(consider))
        )
        test()
    print(f"survey {pid}: {st.evaluations} cases, {len(st.nontrivial)} distinct non-trivial")
    for c, k in sorted(st.classes.items()):
        print(f"   class {c}: {k}")
    for kind, (size, case, msg) in sorted(buckets.items()):
        print(f"--- {kind}: {counts[kind]} cases; smallest ({size} chars): {msg}")
        print("    " + canon(case)[:1500])
    return 0


def cmd_check(pid, tier):
    t0 = time.time()
    mod = load_module(pid)
    seed = int(os.environ.get("VERIF_SEED", "1") or "1")
    known = load_known(pid)
    total = Stats()
    failures = []

    # 1. corpus replay (committed regression cases)
    for path in sorted(glob.glob(os.path.join(ROOT, "corpus", pid, "*.json"))):
        data = json.load(open(path, encoding="utf-8"))
        case = data["case"] if isinstance(data, dict) and "case" in data else data
        obs = run_case(mod, case)
        new = total.record(case, obs, "corpus", known)
        if new:
            failures.append({"case": case, "violations": new, "part": "corpus", "path": os.path.relpath(path, ROOT)})

    # 2. shards
    shards, n_examples = mod.BUDGET[tier]
    jobs = [(pid, tier, seed, s, shards, n_examples) for s in range(shards)]
    if not failures:
        if shards == 1:
            results = [run_shard(jobs[0])]
        else:
            ctx = multiprocessing.get_context("fork")
            with ctx.Pool(min(shards, os.cpu_count() or 1)) as pool:
                results = pool.map(run_shard, jobs, chunksize=1)
        for res in results:
            if "error" in res:
                print("HARNESS-ERROR", res["error"], file=sys.stderr)
                print(f"HARNESS-ERROR property={pid} (see stderr)")
                return 2
            total.merge(res["stats"])
        failures.extend(total.failures)

    wall = time.time() - t0
    has_enum = getattr(mod, "enumerate_cases", None) is not None
    exhaustive = (has_enum and not failures) if has_enum else None
    extra_assumptions = [
        f"tree under test: {REPO} @ {tree_id()}",
        f"hypothesis seeds derived from VERIF_SEED={seed}, shard number and stratum; {n_examples} examples per shard, {shards} shard(s)" + (f", split over {len(mod.STRATA)} strata" if getattr(mod, "STRATA", None) else ""),
    ]
    missing = [c for c in getattr(mod, "REQUIRED_CLASSES", []) if not total.classes.get(c)]
    if missing and not failures:
        print(f"HARNESS-ERROR property={pid}: generator vacuity - classes never produced: {missing}")
        return 2
    if len(total.nontrivial) < 2 and not failures:
        print(f"HARNESS-ERROR property={pid}: fewer than 2 non-trivial cases were generated")
        return 2
    try:
        write_evidence(mod, tier, seed, total, wall, len(failures), exhaustive, extra_assumptions)
    except Exception as exc:
        print("HARNESS-ERROR evidence:", exc, file=sys.stderr)
        traceback.print_exc()
        return 2

    for kind, n in sorted(total.known_seen.items()):
        fid, text = known[kind]
        print(f"KNOWN-FINDING: property={pid} {fid} seen in {n} cases: {text}")

    if failures:
        # smallest first; one VIOLATION line per distinct violation kind
        failures.sort(key=lambda f: len(canon(f["case"])))
        seen = set()
        for f in failures:
            kind = f["violations"][0][0]
            if kind in seen:
                continue
            seen.add(kind)
            rel = f.get("path") or write_replay(pid, seed, f)
            for k, msg in f["violations"][:4]:
                print(f"  {k}: {msg}")
            print(f"VIOLATION property={pid} replay={rel}")
        return 1
    print(
        f"{pid} {tier} seed={seed}: OK  cases={total.evaluations} (parts {dict(total.parts)}) "
        f"distinct_nontrivial={len(total.nontrivial)} elementary={total.units} wall={wall:.1f}s"
    )
    return 0


def main(argv):
    if len(argv) < 2:
        print(__doc__)
        print("usage: check <Cxx> quick|thorough | --replay <file> | --survey [n]")
        return 2
    pid = argv[0].upper()
    try:
        if argv[1] == "--replay":
            return cmd_replay(pid, argv[2])
        if argv[1] == "--survey":
            return cmd_survey(pid, int(argv[2]) if len(argv) > 2 else 2000)
        tier = argv[1]
        if tier not in ("quick", "thorough"):
            tier = os.environ.get("VERIF_TIER", "quick")
        return cmd_check(pid, tier)
    except HarnessError as exc:
        print("HARNESS-ERROR", exc, file=sys.stderr)
        print(f"HARNESS-ERROR property={pid} (see stderr)")
        return 2
    except BaseException as exc:  # anything else in the harness itself is never a VIOLATION
        traceback.print_exc()
        print(f"HARNESS-ERROR property={pid}: {type(exc).__name__} (see stderr)")
        return 2


if __name__ == "__main__":
    sys.exit(main(sys.argv[1:]))
