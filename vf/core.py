"""Shared small types of the harness (kept out of runner.py, which runs as __main__)."""
import hashlib
import json


class Obs:
    """What one case showed."""

    __slots__ = ("violations", "nontrivial", "classes", "units")

    def __init__(self):
        self.violations = []  # list of (kind, message)
        self.nontrivial = False
        self.classes = []
        self.units = 1

    def bad(self, kind, msg):
        self.violations.append((kind, str(msg)[:600]))

    def cls(self, *names):
        for n in names:
            if n not in self.classes:
                self.classes.append(n)


class HarnessError(Exception):
    pass


def canon(case) -> str:
    return json.dumps(case, sort_keys=True, separators=(",", ":"), default=str)


def case_hash(case) -> str:
    return hashlib.sha1(canon(case).encode()).hexdigest()
