"""C13 - EVO script commands agree with the volume tracking and with their arguments."""
import math
from fractions import Fraction

from hypothesis import strategies as st

from vf import gwl
from vf.core import Obs
from vf.lab import wid

PID = "C13"
RULE = (
    "case = one evo_aspirate / evo_dispense call on a fresh roomy plate or trough (any geometry up to 16x12) with a "
    "well list (ascending within one column = the accepted core; or permuted, with repeats, across columns), a tip "
    "list (ascending distinct; or permuted, repeated, Tip members, Tip.Any, 0/9), scalar or per-tip volumes (also wrong "
    "length, negative, NaN, above max_volume), grid/site/arm inside and outside their ranges; or one evo_wash call "
    "with every parameter inside its documented range or exactly one outside. Streams: core (must be accepted), "
    "order (undetermined: accepted-and-consistent or rejected), invalid (must be rejected), wash. Non-trivial = "
    "accepted call with >= 2 wells and non-uniform volumes, or a call of the order/invalid/wash-invalid class."
)
ASSUMPTIONS = [
    "decode rule (EVOware): selected tips in ascending order serve the selected wells in ascending row order; tolerance 0.005 per volume slot",
    "must-accept: ascending distinct wells of one column, ascending distinct valid tips, valid numbers; must-reject: several columns, out-of-range grid/site/arm/volume, length mismatch; everything else either",
    "liquid classes are plain text without quotes, commas or semicolons (a semicolon is a must-reject)",
]
BUDGET = {"quick": (4, 1200), "thorough": (16, 15000)}
KNOWN_KINDS = {}
STRATA = ["core", "order", "invalid", "wash"]
REQUIRED_CLASSES = ["accepted", "rejected", "either:accepted", "either:rejected", "trough", "plate", "per-tip-volumes", "wash:accepted", "wash:rejected"]

TIPSYM = [1, 2, 3, 4, 5, 6, 7, 8, "T1", "T2", "T3", "T4", "T5", "T6", "T7", "T8"]


def _tipnum(t):
    return int(t[1:]) if isinstance(t, str) and t.startswith("T") else t


@st.composite
def _case(draw, stratum):
    if stratum == "wash":
        base = {"tips": sorted(draw(st.lists(st.integers(1, 8), min_size=1, max_size=8, unique=True))), "waste_location": [draw(st.integers(1, 67)), draw(st.integers(1, 128))], "cleaner_location": [draw(st.integers(1, 67)), draw(st.integers(1, 128))], "arm": draw(st.sampled_from([0, 1])), "waste_vol": draw(st.one_of(st.integers(0, 100), st.floats(0, 100, allow_nan=False))), "waste_delay": draw(st.integers(0, 1000)), "cleaner_vol": draw(st.one_of(st.integers(0, 100), st.floats(0, 100, allow_nan=False))), "cleaner_delay": draw(st.integers(0, 1000)), "airgap": draw(st.integers(0, 100)), "airgap_speed": draw(st.integers(1, 1000)), "retract_speed": draw(st.integers(1, 100)), "fastwash": draw(st.sampled_from([0, 1])), "low_volume": draw(st.sampled_from([0, 1]))}
        bad = draw(st.sampled_from([None, None, "waste_grid", "waste_site", "cleaner_grid", "cleaner_site", "arm", "waste_vol", "waste_delay", "cleaner_vol", "cleaner_delay", "airgap", "airgap_speed", "retract_speed", "fastwash", "low_volume", "tips"]))
        return {"kind": "wash", "args": base, "bad": bad, "bad_hi": draw(st.booleans())}
    trough = draw(st.booleans())
    rows = draw(st.integers(1, 16 if not trough else 8))
    cols = draw(st.integers(1, 12 if not trough else 4))
    col = draw(st.integers(0, cols - 1))
    k = draw(st.integers(1, min(8, rows)))
    rws = sorted(draw(st.lists(st.integers(0, rows - 1), min_size=k, max_size=k, unique=True)))
    tips = sorted(draw(st.lists(st.integers(1, 8), min_size=k, max_size=k, unique=True)))
    tips = [t if draw(st.booleans()) else f"T{t}" for t in tips]
    M = draw(st.sampled_from([950, 200, 50.5]))
    vol = st.one_of(st.integers(0, int(M)), st.integers(0, int(M) * 100).map(lambda i: i / 100), st.floats(0, M, allow_nan=False))
    pertip = draw(st.booleans())
    vols = [draw(vol) for _ in range(k)] if pertip else draw(vol)
    case = {
        "kind": draw(st.sampled_from(["evo_aspirate", "evo_dispense"])),
        "trough": trough,
        "rows": rows,
        "cols": cols,
        "wells": [[r, col] for r in rws],
        "tips": tips,
        "vols": vols,
        "grid": draw(st.integers(1, 67)),
        "site": draw(st.integers(1, 128)),
        "arm": draw(st.sampled_from([0, 0, 1])),
        "lc": draw(st.sampled_from(["Water", "Water free dispense", "LC_µ 2", ""])),
        "M": M,
        "stream": stratum,
        "label": draw(st.sampled_from([None, "step"])),
        # presentation of per-tip volumes: a list is documented; tuples / arrays are undetermined (accepted-and-
        # consistent or rejected) - but an invalid volume inside them must still be refused
        "vols_container": draw(st.sampled_from(["list", "list", "tuple", "ndarray"])),
    }
    if stratum == "order":
        twist = draw(st.sampled_from(["perm-wells", "perm-tips", "perm-both-same", "perm-both", "perm-both", "repeat-well", "repeat-tip", "tip-any", "reverse-both"]))
        case["twist"] = twist
        if k == 1 and twist.startswith(("perm", "reverse")):
            twist = case["twist"] = "repeat-tip" if draw(st.booleans()) else "tip-any"
        if twist == "perm-wells":
            case["wells"] = draw(st.permutations(case["wells"]))
        elif twist == "perm-tips":
            case["tips"] = draw(st.permutations(case["tips"]))
        elif twist == "perm-both-same":
            p = draw(st.permutations(list(range(k))))
            case["wells"] = [case["wells"][i] for i in p]
            case["tips"] = [case["tips"][i] for i in p]
            if pertip:
                case["vols"] = [vols[i] for i in p]
        elif twist == "perm-both":
            case["wells"] = draw(st.permutations(case["wells"]))
            case["tips"] = draw(st.permutations(case["tips"]))
        elif twist == "reverse-both":
            case["wells"] = case["wells"][::-1]
            case["tips"] = case["tips"][::-1]
        elif twist == "repeat-well":
            case["wells"] = case["wells"] + [case["wells"][0]]
            extra = [t for t in range(1, 9) if t not in [_tipnum(x) for x in case["tips"]]]
            case["tips"] = case["tips"] + ([extra[0]] if extra else [case["tips"][0]])
            if pertip:
                case["vols"] = vols + [vols[0]]
        elif twist == "repeat-tip":
            extra_rows = [r for r in range(rows) if r not in rws]
            case["wells"] = case["wells"] + ([[extra_rows[0], col]] if extra_rows else [case["wells"][0]])
            case["tips"] = case["tips"] + [case["tips"][0]]
            if pertip:
                case["vols"] = vols + [vols[0]]
        elif twist == "tip-any":
            case["tips"] = ["any"] + case["tips"][1:]
    elif stratum == "invalid":
        bad = draw(st.sampled_from(["columns", "grid", "site", "arm", "vol-negative", "vol-nan", "vol-big", "vol-huge", "len-tips", "len-vols", "lc-semicolon", "tip-number"]))
        case["bad"] = bad
        if bad == "columns" and cols < 2:
            bad = case["bad"] = "grid"
        if bad == "columns":
            other = (col + 1) % cols
            extra_row = [r for r in range(rows) if r not in rws]
            if k >= 2:
                j = draw(st.integers(0, k - 1))  # also a well in the middle of the row order
                case["wells"][j] = [case["wells"][j][0], other]
            else:
                case["wells"] = case["wells"] + [[rws[0], other]]
                tn = [_tipnum(x) for x in case["tips"]]
                case["tips"] = case["tips"] + [max(tn) + 1 if max(tn) < 8 else min(set(range(1, 9)) - set(tn))]
                case["tips"] = sorted(case["tips"], key=_tipnum)
                if pertip:
                    case["vols"] = vols + [vols[0]]
        elif bad == "grid":
            case["grid"] = draw(st.sampled_from([0, 68, -1, 100, 1.5]))
        elif bad == "site":
            case["site"] = draw(st.sampled_from([0, 129, -3, 2.5]))
        elif bad == "arm":
            case["arm"] = draw(st.sampled_from([2, -1, 5]))
        elif bad.startswith("vol-"):
            v = {"vol-negative": -1.5, "vol-nan": {"special": "nan"}, "vol-big": round(M + 0.01, 2), "vol-huge": 7158279.0}[bad]
            if pertip:
                vv = list(vols)
                vv[draw(st.integers(0, k - 1))] = v
                case["vols"] = vv
            else:
                case["vols"] = v
        elif bad == "len-tips":
            tn = [t for t in range(1, 9) if t not in [_tipnum(x) for x in case["tips"]]]
            case["tips"] = case["tips"][:-1] if (k > 1 and draw(st.booleans())) or not tn else sorted(case["tips"] + [tn[0]], key=_tipnum)
        elif bad == "len-vols":
            case["vols"] = (vols if pertip else [vols] * k) + [1.0] if draw(st.booleans()) or k == 1 else (vols if pertip else [vols] * k)[:-1]
        elif bad == "lc-semicolon":
            case["lc"] = "a;b"
        elif bad == "tip-number":
            case["tips"] = case["tips"][:-1] + [draw(st.sampled_from([0, 9, -1]))]
    return case


def strategy(tier, stratum):
    return _case(stratum)


ENUM_SPACE = "all 127 selection characters (patterns of A01..G01 on an 8x12 plate); both ends of every documented range of evo_wash / evo_aspirate / evo_dispense (on the end: accepted, one step outside: refused); every order of 3 tips x every order of 3 wells (36), and every order of 4 tips x every order of 4 wells (576; quick: a stride sample of 96), with pairwise different per-tip volumes, on a plate and on a trough"


def enumerate_cases(tier):
    import itertools

    for k in (3, 4):
        combos = list(itertools.product(itertools.permutations(range(k)), itertools.permutations(range(k))))
        if k == 4 and tier == "quick":
            combos = combos[::6]
        for n, (tp, wp) in enumerate(combos):
            trough = n % 2 == 1
            yield {
                "kind": "evo_aspirate" if n % 4 < 2 else "evo_dispense",
                "trough": trough,
                "rows": 8,
                "cols": 2,
                "wells": [[1 + 2 * w, 1] for w in wp],
                "tips": [2 + 2 * t if (n + t) % 2 else f"T{2 + 2 * t}" for t in tp],
                "vols": [10.0 * (i + 1) + 0.25 for i in range(k)],
                "grid": 20,
                "site": 3,
                "arm": 0,
                "lc": "Water",
                "M": 950,
                "stream": "core" if (list(tp) == sorted(tp) and list(wp) == sorted(wp)) else "order",
                "twist": "enumerated-orders",
                "label": None,
                "vols_container": "list",
            }


    # every character a selection string can contain (7 wells per character): all 127 non-empty patterns of A01..G01,
    # through the worklist (the stored record) and through the command function
    for m in range(1, 128):
        rows_ = [b for b in range(7) if m >> b & 1]
        yield {"kind": "evo_aspirate" if m % 2 else "evo_dispense", "trough": False, "rows": 8, "cols": 12, "wells": [[r, 0] for r in rows_], "tips": list(range(1, len(rows_) + 1)),
               "vols": [5.0 + i for i in range(len(rows_))], "grid": 20, "site": 3, "arm": 0, "lc": "Water", "M": 950, "stream": "core", "label": None, "vols_container": "list"}
    # the ends of every documented range: exactly on them (accepted) and one step outside (refused)
    wash_mid = {"tips": [1, 3], "waste_location": [30, 2], "cleaner_location": [31, 3], "arm": 0, "waste_vol": 3.0, "waste_delay": 500, "cleaner_vol": 4.0, "cleaner_delay": 500, "airgap": 10, "airgap_speed": 70, "retract_speed": 30, "fastwash": 1, "low_volume": 0}
    ranges = {"waste_grid": (1, 67), "waste_site": (1, 128), "cleaner_grid": (1, 67), "cleaner_site": (1, 128), "arm": (0, 1), "waste_vol": (0, 100), "waste_delay": (0, 1000), "cleaner_vol": (0, 100), "cleaner_delay": (0, 1000), "airgap": (0, 100), "airgap_speed": (1, 1000), "retract_speed": (1, 100), "fastwash": (0, 1), "low_volume": (0, 1)}
    for key, (lo, hi) in ranges.items():
        for val in (lo, hi):
            args = {k: (list(v) if isinstance(v, list) else v) for k, v in wash_mid.items()}
            if key.endswith("_grid"):
                args[key.replace("_grid", "_location")][0] = val
            elif key.endswith("_site"):
                args[key.replace("_site", "_location")][1] = val
            else:
                args[key] = val
            yield {"kind": "wash", "args": args, "bad": None, "bad_hi": False}
        for hi_side in (False, True):
            yield {"kind": "wash", "args": {k: (list(v) if isinstance(v, list) else v) for k, v in wash_mid.items()}, "bad": key, "bad_hi": hi_side}
    base = {"trough": False, "rows": 8, "cols": 3, "wells": [[0, 1], [1, 1]], "tips": [1, 2], "vols": [10.5, 20.25], "grid": 20, "site": 3, "arm": 0, "lc": "Water", "M": 950, "stream": "core", "label": None, "vols_container": "list"}
    for kind in ("evo_aspirate", "evo_dispense"):
        for key, vals in (("grid", (1, 67)), ("site", (1, 128)), ("arm", (0, 1)), ("vols", ([950, 0], 950, 0, [0.004, 949.995]))):
            for val in vals:
                yield dict(base, kind=kind, **{key: val})
        # the format's own volume limit shows when no dilutor limit is given
        yield dict(base, kind=kind, M=1e9, vols=7158278, wells=[[0, 1]], tips=[1])
        yield dict(base, kind=kind, M=1e9, vols=[7158278.0, 1.0])
        yield dict(base, kind=kind, M=1e9, vols=7158279, wells=[[0, 1]], tips=[1], stream="invalid", bad="vol-huge")
        yield dict(base, kind=kind, M=1e9, vols=[1.0, 7158278.5], stream="invalid", bad="vol-huge")
        for key, vals, bad in (("grid", (0, 68), "grid"), ("site", (0, 129), "site"), ("arm", (-1, 2), "arm"), ("vols", ([950.01, 1], 950.01, [1, -0.01], 7158279), "vol")):
            for val in vals:
                yield dict(base, kind=kind, stream="invalid", bad=bad, **{key: val})


def _sym(t):
    import robotools

    if t == "any":
        return robotools.Tip.Any
    if isinstance(t, str):
        return getattr(robotools.Tip, t)
    return t


def _v(x):
    if isinstance(x, dict):
        return float(x["special"])
    return x


def _wash(obs, case):
    import robotools

    a = dict(case["args"])
    bad = case["bad"]
    hi = case["bad_hi"]
    wl_, ws_ = a.pop("waste_location")
    cl_, cs_ = a.pop("cleaner_location")
    if bad == "waste_grid":
        wl_ = 68 if hi else 0
    elif bad == "waste_site":
        ws_ = 129 if hi else 0
    elif bad == "cleaner_grid":
        cl_ = 68 if hi else 0
    elif bad == "cleaner_site":
        cs_ = 129 if hi else 0
    elif bad == "arm":
        a["arm"] = 2 if hi else -1
    elif bad in ("waste_vol", "cleaner_vol"):
        # also values that only just leave the range (they must not be rounded back into it)
        k = (a["waste_delay"] + a["airgap"]) % 3
        a[bad] = (100.5, 100.04, 100.001)[k] if hi else (-0.1, -0.04, -0.001)[k]
    elif bad in ("waste_delay", "cleaner_delay"):
        a[bad] = 1001 if hi else -1
    elif bad == "airgap":
        a[bad] = 101 if hi else -1
    elif bad == "airgap_speed":
        a[bad] = 1001 if hi else 0
    elif bad == "retract_speed":
        a[bad] = 101 if hi else 0
    elif bad in ("fastwash", "low_volume"):
        a[bad] = 2 if hi else -1
    elif bad == "tips":
        a["tips"] = a["tips"] + [9 if hi else 0]
    # the wash command is a script command of its own: the worklist's DiTi mode (which governs W records) does not change it
    diti = (a["waste_delay"] + a["cleaner_delay"]) % 2 == 1
    wl = robotools.EvoWorklist(diti_mode=diti)
    obs.cls("wash:diti_mode=" + str(diti))
    wl.append("C;before")
    exc = None
    try:
        wl.evo_wash(waste_location=(wl_, ws_), cleaner_location=(cl_, cs_), **a)
    except Exception as e:  # noqa
        exc = e
    new = list(wl[1:])
    if bad is not None:
        obs.nontrivial = True
        if exc is None:
            obs.bad("C13/wash-invalid-accepted", f"evo_wash with {bad} out of range ({'high' if hi else 'low'}) accepted: {new}")
        else:
            obs.cls("wash:rejected")
            if new:
                obs.bad("C13/wash-appended-on-reject", f"evo_wash raised but appended {new}")
        return
    if exc is not None:
        obs.bad("C13/wash-valid-rejected", f"evo_wash({case['args']}) raised {type(exc).__name__}: {exc}")
        return
    obs.cls("wash:accepted")
    if len(new) != 1:
        obs.bad("C13/wash-records", f"evo_wash appended {new}")
        return
    try:
        rec = gwl.parse_record(new[0])
    except gwl.GwlError as e:
        obs.bad("C13/wash-malformed", f"{new[0]!r}: {e}")
        return
    if "args" not in rec.f or not new[0].startswith("B;Wash("):
        obs.bad("C13/wash-records", f"evo_wash (diti_mode={diti}) appended {new[0]!r} instead of a B;Wash(...) command")
        return
    args = rec.f["args"]
    mask = 0
    for t in a["tips"]:
        mask |= 1 << (t - 1)
    want = [str(mask), str(wl_), str(ws_ - 1), str(cl_), str(cs_ - 1), None, str(a["waste_delay"]), None, str(a["cleaner_delay"]), str(a["airgap"]), str(a["airgap_speed"]), str(a["retract_speed"]), str(a["fastwash"]), str(a["low_volume"]), "1000", str(a["arm"])]
    for i, (got, w) in enumerate(zip(args, want)):
        if w is not None and got != w:
            obs.bad("C13/wash-argument", f"evo_wash: argument {i + 1} is {got}, expected {w} ({new[0]!r})")
    for i, key in ((5, "waste_vol"), (7, "cleaner_vol")):
        g = args[i]
        if not (g.startswith('"') and g.endswith('"')):
            obs.bad("C13/wash-argument", f"evo_wash: {key} argument {g} is not quoted")
            continue
        body = g[1:-1]
        try:
            val = float(body)
        except ValueError:
            obs.bad("C13/wash-argument", f"evo_wash: {key} argument {g} is not a number")
            continue
        if abs(val - a[key]) > 0.05 + 1e-9 or ("." in body and len(body.split(".")[1]) > 1):
            obs.bad("C13/wash-argument", f"evo_wash: {key}={a[key]!r} emitted as {g} (one decimal expected)")
    obs.nontrivial = True


def _follow_up(obs, case, spec, trough, rows, cols, desc):
    """A rejected call must not influence the next, valid call on labware of the same dimensions."""
    import robotools

    lw2 = robotools.Trough("Lab", rows, cols, min_volume=0, max_volume=1e7, initial_volumes=1e5) if trough else robotools.Labware("Lab", rows, cols, min_volume=0, max_volume=1e7, initial_volumes=1e5)
    wl2 = robotools.EvoWorklist(max_volume=950)
    col = cols - 1
    k = min(rows, 2)
    wells = [wid(r, col) for r in range(k)]
    vols = [5.0, 7.5][:k]
    pre = lw2.volumes
    try:
        wl2.evo_aspirate(lw2, wells, (case["grid"] if isinstance(case["grid"], int) and 1 <= case["grid"] <= 67 else 10, 1), list(range(1, k + 1)), vols, "Water")
    except Exception as e:  # noqa
        obs.bad("C13/follow-up-rejected", f"after the rejected call [{desc}] a plain valid evo_aspirate on a fresh {rows}x{cols} labware raised {type(e).__name__}: {e}")
        return
    spec2 = dict(spec, pos=[case["grid"] if isinstance(case["grid"], int) and 1 <= case["grid"] <= 67 else 10, 1])
    try:
        rec = gwl.parse_record(wl2[-1])
        deltas = gwl.decode_command(rec, gwl.Rack.from_spec(spec2))
    except gwl.GwlError as e:
        obs.bad("C13/follow-up-corrupted", f"after the rejected call [{desc}] the next valid command is {wl2[-1]!r}: {e}")
        return
    moved = {}
    for well, _, v in deltas:
        moved[well] = moved.get(well, 0) + float(v)
    post = lw2.volumes
    for idx in [(r, c) for r in range(pre.shape[0]) for c in range(pre.shape[1])]:
        if abs((float(pre[idx]) - float(post[idx])) - moved.get(idx, 0.0)) > 0.011:
            obs.bad("C13/follow-up-corrupted", f"after the rejected call [{desc}] the next valid command {wl2[-1]!r} disagrees with the tracking at {idx}")
            return


def check_case(case) -> Obs:
    import robotools

    obs = Obs()
    if case["kind"] == "wash":
        _wash(obs, case)
        return obs
    rows, cols = case["rows"], case["cols"]
    M = case["M"]
    trough = case["trough"]
    cap, fill = (1e7, 1e5) if M < 1e8 else (1e8, 5e7)  # a huge dilutor limit: the format's own 7158278 uL is the limit
    if trough:
        lw = robotools.Trough("Lab", rows, cols, min_volume=0, max_volume=cap, initial_volumes=fill)
        spec = {"kind": "trough", "name": "Lab", "vrows": rows, "cols": cols, "min": 0, "max": cap, "init": [fill] * cols, "pos": [case["grid"], case["site"]]}
    else:
        lw = robotools.Labware("Lab", rows, cols, min_volume=0, max_volume=cap, initial_volumes=fill)
        spec = {"kind": "plate", "name": "Lab", "rows": rows, "cols": cols, "min": 0, "max": cap, "init": [[fill] * cols for _ in range(rows)], "pos": [case["grid"], case["site"]]}
    obs.cls("trough" if trough else "plate", "stream:" + case["stream"])
    wells = [wid(r, c) for r, c in case["wells"]]
    tips = [_sym(t) for t in case["tips"]]
    vols = [_v(x) for x in case["vols"]] if isinstance(case["vols"], list) else _v(case["vols"])
    container = case.get("vols_container", "list")
    if isinstance(vols, list):
        obs.cls("per-tip-volumes")
        if container == "tuple":
            vols = tuple(vols)
        elif container == "ndarray":
            import numpy as np

            vols = np.array(vols, dtype=float)
        obs.cls("volumes-as-" + container)
    undetermined_container = isinstance(case["vols"], list) and container != "list"
    from vf.lab import evo_class

    wl = evo_class(len(repr(case["wells"])) + len(repr(case["vols"])))(max_volume=M)
    pre = lw.volumes
    exc = None
    try:
        getattr(wl, case["kind"])(lw, wells, (case["grid"], case["site"]), tips, vols, case["lc"], arm=case["arm"], label=case["label"])
    except Exception as e:  # noqa
        exc = e
    post = lw.volumes
    new = [r for r in wl if not r.startswith("C;")]
    stream = case["stream"]
    # the same call through the module-level command function (no labware, no tracking): same verdict, same command
    direct = dexc = None
    try:
        direct = getattr(robotools.evotools.commands, case["kind"])(n_rows=rows, n_columns=cols, wells=wells, labware_position=(case["grid"], case["site"]), volume=vols, liquid_class=case["lc"], tips=tips, arm=case["arm"], max_volume=M)
    except Exception as e:  # noqa
        dexc = e
    dname = f"evo_cmd.{case['kind']}"
    if stream == "invalid" and dexc is None:
        obs.bad("C13/invalid-accepted", f"{dname}(wells={wells}, tips={case['tips']}, volume={case['vols']}, pos=({case['grid']},{case['site']}), arm={case['arm']}, lc={case['lc']!r}, max_volume={M}) [{case['bad']}] returned {direct!r}")
    if exc is None and dexc is None and (len(new) != 1 or new[0] != direct):
        # not the same text: then at least the same command (type, liquid class, per-tip volumes, position, selection, arm)
        same = False
        if len(new) == 1:
            try:
                fa, fb = gwl.parse_record(new[0]), gwl.parse_record(direct)
                same = fa.type == fb.type and {k: (v if k != "slots" else [None if x is None else Fraction(x) for x in v]) for k, v in fa.f.items()} == {k: (v if k != "slots" else [None if x is None else Fraction(x) for x in v]) for k, v in fb.f.items()}
            except Exception:  # noqa
                same = False
        if not same:
            obs.bad("C13/direct-differs", f"{dname} returns {direct!r}, the worklist method appended {new}")
    if exc is None and dexc is not None and stream == "core" and not (isinstance(case["vols"], list) and case.get("vols_container", "list") != "list"):
        obs.bad("C13/valid-rejected", f"{dname} raised {type(dexc).__name__}: {dexc} for a call the worklist method accepted ({new})")
    if M == 950 and stream != "invalid" and dexc is None:
        # without max_volume the documented dilutor volume of 950 uL is the limit
        try:
            d2 = getattr(robotools.evotools.commands, case["kind"])(n_rows=rows, n_columns=cols, wells=wells, labware_position=(case["grid"], case["site"]), volume=vols, liquid_class=case["lc"], tips=tips, arm=case["arm"])
            if d2 != direct:
                obs.bad("C13/direct-differs", f"{dname} without max_volume returns {d2!r}, with max_volume=950 {direct!r}")
        except Exception as e:  # noqa
            obs.bad("C13/valid-rejected", f"{dname} without max_volume raised {type(e).__name__}: {e} (volumes {case['vols']} <= 950)")
    if M == 950 and stream == "invalid" and str(case.get("bad", "")).startswith("vol"):
        try:
            d2 = getattr(robotools.evotools.commands, case["kind"])(n_rows=rows, n_columns=cols, wells=wells, labware_position=(case["grid"], case["site"]), volume=vols, liquid_class=case["lc"], tips=tips, arm=case["arm"])
        except Exception:
            obs.cls("direct-default-limit:rejected")
        else:
            obs.bad("C13/invalid-accepted", f"{dname} without max_volume accepted volume {case['vols']} (dilutor volume 950): {d2!r}")
    desc = f"{case['kind']}(wells={wells}, tips={case['tips']}, volumes={case['vols']} as {container}, pos=({case['grid']},{case['site']}), arm={case['arm']}, lc={case['lc']!r}, max_volume={M}) on a {'trough' if trough else 'plate'} {rows}x{cols}"
    if exc is not None:
        obs.cls("rejected", "exc:" + type(exc).__name__)
        if new:
            obs.bad("C13/appended-on-reject", f"{desc} raised {type(exc).__name__} but appended {new}")
        _follow_up(obs, case, spec, trough, rows, cols, desc)
        if stream == "core" and not undetermined_container:
            obs.bad("C13/valid-rejected", f"{desc} raised {type(exc).__name__}: {exc}")
        if stream == "order":
            obs.cls("either:rejected", "twist:" + case.get("twist", "?") + ":rejected")
        obs.nontrivial = stream != "core"
        return obs
    obs.cls("accepted")
    if stream == "invalid":
        obs.bad("C13/invalid-accepted", f"{desc} [{case['bad']}] was accepted: {new}")
        return obs
    if stream == "order":
        obs.cls("either:accepted", "twist:" + case.get("twist", "?") + ":accepted")
    if len(new) != 1:
        obs.bad("C13/record-count", f"{desc} appended {new}")
        return obs
    try:
        rec = gwl.parse_record(new[0])
    except gwl.GwlError as e:
        obs.bad("C13/malformed", f"{desc} -> {new[0]!r}: {e}")
        return obs
    f = rec.f
    if rec.type != ("CMD_ASPIRATE" if case["kind"] == "evo_aspirate" else "CMD_DISPENSE"):
        obs.bad("C13/command-type", f"{desc} -> {new[0]!r}")
    if f["liquid_class"] != case["lc"] or f["arm"] != case["arm"] or f["grid"] != case["grid"] or f["site"] != case["site"] - 1:
        obs.bad("C13/arguments", f"{desc} -> liquid class {f['liquid_class']!r}, arm {f['arm']}, grid {f['grid']}, site {f['site']} in {new[0]!r}")
    for sl in f["slots"]:
        if sl is not None and "." in sl and len(sl.split(".")[1]) > 2:
            obs.bad("C13/volume-format", f"{desc}: volume slot {sl!r} has more than two decimals in {new[0]!r}")
            break
    rack = gwl.Rack.from_spec(spec)
    try:
        deltas = gwl.decode_command(rec, rack)
    except gwl.GwlError as e:
        obs.bad("C13/undecodable", f"{desc} -> {new[0]!r}: {e}")
        return obs
    per_well = {}
    for well, _, v in deltas:
        per_well[well] = per_well.get(well, Fraction(0)) + v
    sign = -1 if case["kind"] == "evo_aspirate" else 1
    nslots = {}
    for well, _, v in deltas:
        nslots[well] = nslots.get(well, 0) + 1
    for idx in [(r, c) for r in range(pre.shape[0]) for c in range(pre.shape[1])]:
        tracked = sign * (float(post[idx]) - float(pre[idx]))
        cmd = float(per_well.get(idx, 0))
        if abs(tracked - cmd) > 0.005 * max(1, nslots.get(idx, 1)) + 1e-9:
            obs.bad("C13/tracking-mismatch", f"{desc}: well {idx} changed by {tracked} in Labware.volumes, the command {new[0]!r} moves {cmd}")
            break
    uniform = not isinstance(case["vols"], list) or len(set(map(str, case["vols"]))) <= 1
    obs.nontrivial = stream == "order" or (len(wells) >= 2 and not uniform)
    return obs
