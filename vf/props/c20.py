"""C20 - every labware the constructors accept is internally consistent."""
import math

import numpy as np
from hypothesis import strategies as st

from vf.core import Obs

PID = "C20"
RULE = (
    "case = one constructor call: Labware(name, rows, columns, ...), Labware(..., rows=1, virtual_rows=V) or "
    "Trough(name, V, columns, ...) with sizes (rows up to 40, columns up to 120, virtual rows up to 30; 0, negative, "
    "2.5, '3'), limits (valid, equal, reversed, negative, NaN), initial volumes given as scalar / flat list (right or "
    "wrong length) / 2-D array / per-column list (values in range, negative, NaN, inf, above max_volume) and component "
    "or column names (for filled, empty and non-existent wells). Enumerated: a systematic list with exactly one "
    "invalid aspect at a time over several base geometries; generated: valid / one-invalid / mixed streams. "
    "Non-trivial = accepted non-square labware with non-uniform initial volumes, or a rejected specification with "
    "exactly one invalid aspect; distinct by canonical JSON."
)
ASSUMPTIONS = [
    "must-reject (ValueError): non-positive or non-integer sizes, more than 26 rows / virtual rows, virtual rows with rows != 1, negative / NaN / inf / too large initial volumes, names for empty or unknown wells, per-column or flat lists of the wrong length, min_volume < 0, max_volume <= min_volume",
    "NaN limits cannot yield 0 <= min_volume < max_volume, so an accepted object would be inconsistent: must-reject with any exception type",
    "undetermined (either): bool sizes, max_volume = inf, 2-D initial volumes of another shape with the right size, 2-D initial volumes for Trough()",
]
BUDGET = {"quick": (4, 1000), "thorough": (16, 8000)}
KNOWN_KINDS = {}
STRATA = ["valid", "one-invalid", "mixed"]
REQUIRED_CLASSES = ["accepted", "rejected", "ctor:Labware", "ctor:LabwareV", "ctor:Trough", "init:scalar", "init:flat", "init:2d", "init:percol", "named"]
LETTERS = "ABCDEFGHIJKLMNOPQRSTUVWXYZ"
ENUM_SPACE = "layout sweep: plates 1..8 x 1..6 and troughs {1,3,8} x 1..6 with pairwise distinct initial volumes as flat list / 2-D array / per-column list; base geometries {plate 2x3, 8x12, 1x1, 26x2, 3x100; trough 4x2, 1x1, 26x3; Labware(virtual_rows) 6x2} x every single invalid aspect (size 0/-1/2.5/'3'/27/40, virtual rows on multi-row labware, min<0, max<=min, NaN limits, initial volume negative/NaN/inf/above max at the first/last well, wrong-length lists, names for empty/unknown wells) + the all-valid specification of each base"


def wid(r, c):
    return f"{LETTERS[r]}{c + 1:02d}"


INVALID_SIZES = [0, -1, 2.5, "3"]


def _base(ctor, rows, cols, vrows=None):
    return {"ctor": ctor, "name": "Lab", "rows": rows, "cols": cols, "vrows": vrows, "min": 5.0, "max": 300.0, "init": {"t": "scalar", "v": 50.0}, "names": None, "aspects": {}}


def enumerate_cases(tier):
    bases = [_base("Labware", 2, 3), _base("Labware", 8, 12), _base("Labware", 1, 1), _base("Labware", 26, 2), _base("Labware", 3, 100), _base("Trough", 1, 2, 4), _base("Trough", 1, 1, 1), _base("Trough", 1, 3, 26), _base("LabwareV", 1, 2, 6)]
    # layout sweep: every small geometry with pairwise distinct initial volumes in every presentation
    for rows in range(1, 9):
        for cols in range(1, 7):
            n = rows * cols
            flat = [float(i + 1) for i in range(n)]
            b = _base("Labware", rows, cols)
            yield dict(b, init={"t": "flat", "v": flat})
            yield dict(b, init={"t": "2d", "v": [flat[r * cols : (r + 1) * cols] for r in range(rows)]})
            yield dict(b, init={"t": "flat", "v": [0.0] + flat[1:]}, names={"t": "dict", "v": {wid(rows - 1, cols - 1): "last"}} if n > 1 else None)
    for vrows in (1, 3, 8):
        for cols in range(1, 7):
            flat = [float(i + 1) for i in range(cols)]
            yield dict(_base("Trough", 1, cols, vrows), init={"t": "percol", "v": flat})
            yield dict(_base("Trough", 1, cols, vrows), init={"t": "percol-tuple", "v": flat})
            yield dict(_base("Trough", 1, cols, vrows), init={"t": "percol-array", "v": flat})
            yield dict(_base("LabwareV", 1, cols, vrows), init={"t": "flat", "v": flat})
            yield dict(_base("LabwareV", 1, cols, vrows), init={"t": "2d", "v": [flat]})
    # initial volumes given in single precision: the number that is given is the float32 value (which may lie a hair
    # above a max_volume written with two decimals); the case carries that value exactly
    for mx in (0.3, 0.1, 0.7, 33.3, 250.7, 100.1, 1e-3, 299.99):
        v32 = float(np.float32(mx))
        for b in (_base("Labware", 2, 2), _base("Trough", 1, 2, 3), _base("LabwareV", 1, 2, 3)):
            b = dict(b, min=0.0, max=mx, init_dtype="float32")
            nreal = (b["rows"] if b["ctor"] == "Labware" else 1) * b["cols"]
            flat = [v32] + [float(np.float32(mx / 2))] * (nreal - 1)
            if b["ctor"] == "Trough":
                yield dict(b, init={"t": "percol-array", "v": flat})
            else:
                yield dict(b, init={"t": "2d", "v": [flat[r * b["cols"] : (r + 1) * b["cols"]] for r in range(nreal // b["cols"])]})
            if b["ctor"] != "Trough":  # Trough documents int / float / sequence; a numpy float32 scalar is neither
                yield dict(b, init={"t": "scalar", "v": v32})
    for b in (_base("Labware", 2, 3), _base("Trough", 1, 2, 4), _base("LabwareV", 1, 2, 3)):
        nreal = (b["rows"] if b["ctor"] == "Labware" else 1) * b["cols"]
        # an unlimited max_volume does not make an infinite filling volume finite
        for bad in ({"special": "inf"}, {"special": "nan"}, {"special": "-inf"}):
            yield dict(b, max={"special": "inf"}, init={"t": "scalar", "v": bad}, aspects={"init": "invalid"})
            yield dict(b, max={"special": "inf"}, init={"t": "percol" if b["ctor"] == "Trough" else "flat", "v": [50.0] * (nreal - 1) + [bad]}, aspects={"init": "invalid"})
        yield dict(b, max={"special": "inf"}, init={"t": "scalar", "v": 1e300})
        # names although nothing was filled in: initial volumes left out, None in effect, or zero
        for init in ({"t": "none"}, {"t": "scalar", "v": 0.0}):
            if b["ctor"] == "Trough":
                yield dict(b, init=init, names={"t": "cols", "v": ["water"] + [None] * (b["cols"] - 1)}, aspects={"names": "invalid"})
                yield dict(b, init=init, names={"t": "cols", "v": [None] * b["cols"]})
            else:
                yield dict(b, init=init, names={"t": "dict", "v": {"A01": "water"}}, aspects={"names": "invalid"})
                yield dict(b, init=init, names={"t": "dict", "v": {"Q77": "water"}}, aspects={"names": "invalid"})
                yield dict(b, init=init, names={"t": "dict", "v": {"A01": None}})
        # names that differ only in upper/lower case are different names, whatever order the wells come in
        variants = ["water", "Water", "water", "WATER", "Water", "water"]
        if b["ctor"] == "Trough":
            yield dict(_base("Trough", 1, 6, 2), init={"t": "percol", "v": [10.0 * (i + 1) for i in range(6)]}, names={"t": "cols", "v": variants})
        else:
            yield dict(b, init={"t": "flat", "v": [10.0 * (i + 1) for i in range(nreal)]}, names={"t": "dict", "v": {wid(i // b["cols"], i % b["cols"]): variants[i % 6] for i in range(nreal)}})
    for b in bases:
        yield dict(b)
        size_keys = ["cols"] + (["rows"] if b["ctor"] == "Labware" else ["vrows"])
        for key in size_keys:
            for bad in INVALID_SIZES + ([27, 30, 40] if key in ("rows", "vrows") else []):
                yield dict(b, **{key: bad}, aspects={key: "invalid"})
        if b["ctor"] == "LabwareV":
            yield dict(b, rows=2, aspects={"vrows-on-multirow": "invalid"})
            yield dict(b, rows=3, vrows=1, aspects={"vrows-on-multirow": "invalid"})
        for mn, mx, tag in [(-1.0, 300.0, "invalid"), (-0.01, 10.0, "invalid"), (300.0, 300.0, "invalid"), (301.0, 300.0, "invalid"), (0.0, 0.0, "invalid"), ({"special": "nan"}, 300.0, "nan"), (5.0, {"special": "nan"}, "nan")]:
            yield dict(b, min=mn, max=mx, aspects={"limits": tag})
        nreal = (b["rows"] if b["ctor"] == "Labware" else 1) * b["cols"]
        for bad in (-1.0, -0.01, {"special": "nan"}, {"special": "inf"}, 300.01, 1e9):
            yield dict(b, init={"t": "scalar", "v": bad}, aspects={"init": "invalid"})
            for pos in sorted({0, nreal - 1}):
                flat = [50.0] * nreal
                flat[pos] = bad
                if b["ctor"] == "Trough":
                    yield dict(b, init={"t": "percol", "v": flat}, aspects={"init": "invalid"})
                else:
                    yield dict(b, init={"t": "flat", "v": flat}, aspects={"init": "invalid"})
        for n in (nreal + 1, max(0, nreal - 1), 2 * nreal, 1):
            if n != nreal and (n != 1 or b["ctor"] == "Trough"):
                for rep in (("percol", "percol-tuple", "percol-array") if b["ctor"] == "Trough" else ("flat",)):
                    yield dict(b, init={"t": rep, "v": [50.0] * n}, aspects={"init-length": "invalid"})
        # names
        if b["ctor"] == "Trough":
            if b["cols"] >= 2:
                yield dict(b, init={"t": "percol", "v": [50.0] + [0.0] * (b["cols"] - 1)}, names={"t": "cols", "v": ["water"] + ["buffer"] + [None] * (b["cols"] - 2)}, aspects={"names": "invalid"})
            yield dict(b, names={"t": "cols", "v": ["x"] * (b["cols"] + 1)}, aspects={"names": "invalid"})
            yield dict(b, names={"t": "cols", "v": ["n%d" % i for i in range(b["cols"])]})
        else:
            rows_ids = b["rows"] if b["ctor"] == "Labware" else 1
            yield dict(b, names={"t": "dict", "v": {wid(0, 0): "water"}})
            yield dict(b, names={"t": "dict", "v": {wid(rows_ids % 26, 0): "water"} if rows_ids < 26 else {"A%02d" % (b["cols"] + 1): "water"}}, aspects={"names": "invalid"})
            yield dict(b, names={"t": "dict", "v": {"A1": "water"}}, aspects={"names": "invalid"})
            flat = [0.0] + [50.0] * (nreal - 1)
            yield dict(b, init={"t": "flat", "v": flat}, names={"t": "dict", "v": {wid(0, 0): "water"}}, aspects={"names": "invalid"})


@st.composite
def _case(draw, stream):
    ctor = draw(st.sampled_from(["Labware", "Labware", "Trough", "LabwareV"]))
    aspects = {}

    def size(key, hi, hi_invalid):
        mode = "valid"
        if stream == "mixed" and draw(st.integers(0, 7)) == 0:
            mode = "invalid"
        if mode == "invalid":
            aspects[key] = "invalid"
            return draw(st.sampled_from(INVALID_SIZES + hi_invalid))
        small = draw(st.integers(0, 9)) < 7
        return draw(st.integers(1, min(hi, 6))) if small else draw(st.integers(1, hi))

    rows = size("rows", 26, [27, 33, 40]) if ctor == "Labware" else 1
    cols = size("cols", 120, [])
    vrows = size("vrows", 26, [27, 30]) if ctor != "Labware" else None
    vmax = draw(st.sampled_from([300.0, 1000.0, 25.5, 1e6]))
    vmin = draw(st.sampled_from([0.0, 0.0, 5.0, 0.01]))
    if stream == "mixed" and draw(st.integers(0, 7)) == 0:
        vmin, vmax = draw(st.sampled_from([(-1.0, 10.0), (10.0, 10.0), (20.0, 10.0)]))
        aspects["limits"] = "invalid"
    ok_rows = isinstance(rows, int) and rows >= 1
    ok_cols = isinstance(cols, int) and cols >= 1
    nreal = (rows if ok_rows else 1) * (cols if ok_cols else 1) if ctor == "Labware" else (cols if ok_cols else 1)
    nreal = min(nreal, 4000)
    val = st.one_of(st.just(0.0), st.floats(0, vmax if math.isfinite(vmax) and vmax > 0 else 10, allow_nan=False), st.integers(0, 20).map(float).filter(lambda x: x <= vmax))
    kind = draw(st.sampled_from(["scalar", "flat", "2d", "none"] if ctor != "Trough" else ["scalar", "percol", "percol", "none"]))
    levels = draw(st.lists(val, min_size=1, max_size=4))
    stride = draw(st.integers(1, 3))
    flat = [levels[(i * stride) % len(levels)] for i in range(nreal)]
    if stream == "mixed" and draw(st.integers(0, 7)) == 0 and kind != "none":
        bad = draw(st.sampled_from([-1.0, {"special": "nan"}, {"special": "inf"}, vmax * 2 + 1]))
        aspects["init"] = "invalid"
        if kind == "scalar":
            levels = [bad]
        else:
            flat[draw(st.integers(0, nreal - 1))] = bad
    if kind == "scalar":
        init = {"t": "scalar", "v": levels[0]}
    elif kind == "none":
        init = {"t": "none"}
    elif kind == "2d":
        R = rows if ok_rows else 1
        C = cols if ok_cols else 1
        init = {"t": "2d", "v": [flat[r * C : (r + 1) * C] for r in range(min(R, 4000 // max(C, 1) + 1))]}
        if len(init["v"]) * C != nreal:
            init = {"t": "flat", "v": flat}
    else:
        init = {"t": kind, "v": flat}
        if stream == "mixed" and draw(st.integers(0, 9)) == 0:
            init["v"] = flat + [1.0] if draw(st.booleans()) or nreal < 3 else flat[:-1]
            if len(init["v"]) != 1 or kind == "percol":
                aspects["init-length"] = "invalid"
    names = None
    if draw(st.integers(0, 2)) == 0 and "init" not in aspects and "init-length" not in aspects and kind != "none":
        filled = [i for i, v in enumerate(flat) if isinstance(v, float) and v > 0] if kind != "scalar" else (list(range(nreal)) if isinstance(levels[0], float) and levels[0] > 0 else [])
        empty = [i for i in range(nreal) if i not in set(filled)]
        C = cols if ok_cols else 1
        if ctor == "Trough":
            v = [("col%d" % i if i in filled and i % 2 == 0 else None) for i in range(nreal)]
            if stream == "mixed" and empty and draw(st.integers(0, 3)) == 0:
                v[empty[0]] = "ghost"
                aspects["names"] = "invalid"
            names = {"t": "cols", "v": v}
        else:
            d = {wid((i // C) % 26, i % C): "n%d" % (i % 3) for i in filled[:6] if i // C < 26}
            for i in filled[6:8]:
                if i // C < 26:
                    d[wid(i // C, i % C)] = None  # explicitly unnamed (Mapping[str, Optional[str]])
            if stream == "mixed" and draw(st.integers(0, 3)) == 0:
                if empty and empty[0] // C < 26 and draw(st.booleans()):
                    d[wid(empty[0] // C, empty[0] % C)] = "ghost"
                else:
                    d["Z99" if C < 99 else "A999"] = "ghost"
                aspects["names"] = "invalid"
            names = {"t": "dict", "v": d}
    case = {"ctor": ctor, "name": draw(st.sampled_from(["Lab", "my plate", "T.1"])), "rows": rows, "cols": cols, "vrows": vrows, "min": vmin, "max": vmax, "init": init, "names": names, "aspects": aspects}
    if stream == "one-invalid":
        # exactly one invalid aspect, chosen from the systematic list applied to this (valid) specification
        choice = draw(st.sampled_from(["rows", "cols", "vrows", "limits", "init", "init-length", "vrows-on-multirow"]))
        if choice == "rows" and ctor == "Labware":
            case["rows"] = draw(st.sampled_from(INVALID_SIZES + [27, 40]))
            case["init"] = {"t": "scalar", "v": levels[0] if isinstance(levels[0], float) else 1.0}
            case["names"] = None
        elif choice == "vrows" and ctor != "Labware":
            case["vrows"] = draw(st.sampled_from(INVALID_SIZES + [27, 30]))
        elif choice == "limits":
            case["min"], case["max"] = draw(st.sampled_from([(-1.0, 10.0), (10.0, 10.0), (20.0, 10.0), (-0.5, 1e6)]))
            case["init"] = {"t": "scalar", "v": 0.0}
            case["names"] = None
        elif choice == "init" and kind != "none":
            bad = draw(st.sampled_from([-1.0, {"special": "nan"}, {"special": "inf"}, vmax * 2 + 1]))
            case["names"] = None
            if kind == "scalar":
                case["init"] = {"t": "scalar", "v": bad}
            else:
                f2 = list(flat)
                f2[draw(st.integers(0, nreal - 1))] = bad
                case["init"] = {"t": "percol" if ctor == "Trough" else "flat", "v": f2}
        elif choice == "init-length" and nreal >= 2:
            case["init"] = {"t": "percol" if ctor == "Trough" else "flat", "v": flat + [1.0]}
            case["names"] = None
        elif choice == "vrows-on-multirow" and ctor == "LabwareV":
            case["rows"] = draw(st.integers(2, 5))
            case["init"] = {"t": "scalar", "v": 1.0}
            case["names"] = None
        else:
            case["cols"] = draw(st.sampled_from(INVALID_SIZES))
            case["init"] = {"t": "scalar", "v": levels[0] if isinstance(levels[0], float) else 1.0}
            case["names"] = None
            choice = "cols"
        case["aspects"] = {choice: "invalid"}
    return case


def strategy(tier, stratum):
    return _case(stratum)


def _v(x):
    if isinstance(x, dict) and "special" in x:
        return float(x["special"])
    return x


def _classify(case):
    """-> (expect, reasons) from the property text, computed from the case itself."""
    reasons = []
    undet = []
    ctor = case["ctor"]
    rows, cols, vrows = case["rows"], case["cols"], case["vrows"]

    def size_ok(x, what, limit26):
        if isinstance(x, bool):
            undet.append(what + " bool")
            return False
        if not isinstance(x, int) or x < 1:
            reasons.append(f"{what}={x!r}")
            return False
        if limit26 and x > 26:
            reasons.append(f"{what}={x} > 26 row letters")
            return False
        return True

    ok_r = size_ok(rows, "rows", True)
    ok_c = size_ok(cols, "columns", False)
    ok_v = True
    if ctor != "Labware":
        ok_v = size_ok(vrows, "virtual_rows", True)
        if ok_r and rows != 1:
            reasons.append("virtual rows on multi-row labware")
    mn, mx = _v(case["min"]), _v(case["max"])
    if isinstance(mn, float) and math.isnan(mn) or isinstance(mx, float) and math.isnan(mx):
        reasons.append("NaN limit (any exception)")
    else:
        if mn < 0:
            reasons.append("min_volume < 0")
        if mx <= mn:
            reasons.append("max_volume <= min_volume")
        if math.isinf(mx):
            undet.append("max inf")
    init = case["init"]
    if ok_r and ok_c and ok_v and not reasons:
        nreal = (rows if ctor == "Labware" else 1) * cols
        vals = None
        if init["t"] == "scalar":
            vals = [_v(init["v"])]
        elif init["t"] in ("flat", "percol", "percol-tuple", "percol-array"):
            vals = [_v(x) for x in init["v"]]
            if len(vals) != nreal:
                if len(vals) == 1 and init["t"] == "flat":
                    undet.append("flat list of length 1")
                else:
                    reasons.append(f"initial volume list of length {len(vals)} for {nreal} wells")
        elif init["t"] == "2d":
            vals = [_v(x) for row in init["v"] for x in row]
            if ctor == "Trough":
                undet.append("2-D initial volumes for Trough")
        if vals is not None:
            for x in vals:
                if isinstance(x, float) and (math.isnan(x) or math.isinf(x)):
                    reasons.append(f"initial volume {x}")
                    break
                if x < 0:
                    reasons.append(f"initial volume {x} < 0")
                    break
                if x > mx:
                    reasons.append(f"initial volume {x} > max_volume")
                    break
        names = case["names"]
        if names and not reasons:
            if init["t"] == "scalar":
                flatv = [_v(init["v"])] * nreal
            elif init["t"] == "none":
                flatv = [0.0] * nreal
            else:
                flatv = [_v(x) for x in (init["v"] if init["t"] != "2d" else [y for row in init["v"] for y in row])]
            if names["t"] == "cols":
                if len(names["v"]) != cols:
                    reasons.append("column names of the wrong length")
                else:
                    for c, nm in enumerate(names["v"]):
                        if nm is not None and c < len(flatv) and flatv[c] == 0:
                            reasons.append("name for an empty column")
                            break
            else:
                rows_ids = rows if ctor == "Labware" else 1
                for w, nm in names["v"].items():
                    ok = len(w) >= 3 and w[0] in LETTERS and w[1:].isdigit() and LETTERS.index(w[0]) < rows_ids and 1 <= int(w[1:]) <= cols and w == wid(LETTERS.index(w[0]), int(w[1:]) - 1)
                    if not ok:
                        reasons.append(f"name for unknown well {w}")
                        break
                    i = LETTERS.index(w[0]) * cols + int(w[1:]) - 1
                    if nm is not None and flatv[i] == 0:
                        reasons.append(f"name for empty well {w}")
                        break
    if reasons:
        return "reject", reasons
    if undet:
        return "either", undet
    return "accept", []


def _args(case):
    """(constructor name, positional arguments, keyword arguments) of the specification, as fresh objects."""
    init = case["init"]
    dt = np.float32 if case.get("init_dtype") == "float32" else float  # float32: the case holds float32-exact values
    if init["t"] == "none":
        iv = None
    elif init["t"] == "scalar":
        iv = _v(init["v"]) if dt is float else np.float32(_v(init["v"]))
    elif init["t"] == "2d":
        iv = np.array([[_v(x) for x in row] for row in init["v"]], dtype=dt)
        # the same numbers in another memory layout: column-major, or a transposed view of the transposed data
        lay = (len(init["v"]) + len(init["v"][0]) if init["v"] else 0) % 3
        if lay == 1:
            iv = np.asfortranarray(iv)
        elif lay == 2:
            iv = np.ascontiguousarray(iv.T).T
    elif init["t"] == "percol-tuple":
        iv = tuple(_v(x) for x in init["v"])
    elif init["t"] == "percol-array":
        iv = np.array([_v(x) for x in init["v"]], dtype=dt)
    else:
        iv = [_v(x) for x in init["v"]]
    kw = {"min_volume": _v(case["min"]), "max_volume": _v(case["max"])}
    names = case["names"]
    if case["ctor"] == "Trough":
        if iv is not None:
            kw["initial_volumes"] = iv
        if names:
            kw["column_names"] = list(names["v"]) if isinstance(names["v"], list) else names["v"]
        return "Trough", (case["name"], case["vrows"], case["cols"]), kw
    if iv is not None:
        kw["initial_volumes"] = iv
    if names:
        kw["component_names"] = dict(names["v"])
    if case["ctor"] == "LabwareV":
        kw["virtual_rows"] = case["vrows"]
    return "Labware", (case["name"], case["rows"], case["cols"]), kw


def _build(case, args=None):
    import robotools

    ctor, pos, kw = args or _args(case)
    return getattr(robotools, ctor)(*pos, **kw)


def _same(a, b):
    if isinstance(a, np.ndarray) or isinstance(b, np.ndarray):
        return isinstance(a, np.ndarray) and isinstance(b, np.ndarray) and a.shape == b.shape and np.array_equal(a, b, equal_nan=True)
    if isinstance(a, float) and isinstance(b, float) and a != a and b != b:
        return True
    if isinstance(a, (list, tuple)) and isinstance(b, (list, tuple)):
        return type(a) is type(b) and len(a) == len(b) and all(_same(x, y) for x, y in zip(a, b))
    if isinstance(a, dict) and isinstance(b, dict):
        return list(a.keys()) == list(b.keys()) and all(_same(a[k], b[k]) for k in a)
    return type(a) is type(b) and a == b


def _twice(case, obs, desc):
    """Constructing is a function of the specification: the same argument objects give the same outcome again, unchanged."""
    import copy

    args = _args(case)
    snapshot = copy.deepcopy(args)
    outcomes = []
    for _ in range(2):
        try:
            lw = _build(case, args)
            outcomes.append(("ok", lw.volumes.tolist(), sorted(lw.composition.keys()), [str(w) for w in lw.wells.flatten()[:200]]))
        except Exception as e:  # noqa
            outcomes.append(("raise", type(e).__name__))
        if not _same(args[2], snapshot[2]) or not _same(list(args[1]), list(snapshot[1])):
            obs.bad("C20/arguments-modified", f"{desc}: the constructor changed the objects passed to it: {str(args[2])[:200]} (before: {str(snapshot[2])[:200]})")
            return
    if repr(outcomes[0]) != repr(outcomes[1]):
        obs.bad("C20/second-construction-differs", f"{desc}: constructing twice from the same argument objects gave {str(outcomes[0])[:150]} and then {str(outcomes[1])[:150]}")
    obs.cls("built-twice")


def check_case(case) -> Obs:
    obs = Obs()
    expect, reasons = _classify(case)
    obs.cls("ctor:" + case["ctor"], "init:" + case["init"]["t"], "expect:" + expect)
    if case["names"]:
        obs.cls("named")
    try:
        lw = _build(case)
    except ValueError as e:
        exc = e
    except Exception as e:  # noqa
        exc = e
    else:
        exc = None
    desc = f"{case['ctor']}(rows={case['rows']!r}, columns={case['cols']!r}, virtual_rows={case['vrows']!r}, min={case['min']!r}, max={case['max']!r}, init={str(case['init'])[:120]}, names={str(case['names'])[:100]})"
    _twice(case, obs, desc)
    if exc is not None:
        obs.cls("rejected", "exc:" + type(exc).__name__)
        if expect == "accept":
            obs.bad("C20/valid-rejected", f"{desc} raised {type(exc).__name__}: {exc}")
        elif expect == "reject" and not isinstance(exc, ValueError) and not any("any exception" in r for r in reasons):
            obs.bad("C20/wrong-exception", f"{desc} [{reasons}] raised {type(exc).__name__}: {exc} (ValueError expected)")
        obs.nontrivial = expect == "reject" and len(reasons) == 1
        return obs
    obs.cls("accepted")
    if expect == "reject":
        obs.bad("C20/invalid-accepted", f"{desc} was accepted although: {reasons}")
        # fall through: the object must at least be consistent -> report what is inconsistent as well
    ctor = case["ctor"]
    rows_ids = case["rows"] if ctor == "Labware" else case["vrows"]
    real_rows = case["rows"] if ctor == "Labware" else 1
    cols = case["cols"]
    try:
        wells = lw.wells
        vols = lw.volumes
        ok_sizes = isinstance(rows_ids, int) and isinstance(cols, int) and isinstance(real_rows, int)
        if ok_sizes:
            if wells.shape != (rows_ids, cols):
                obs.bad("C20/wells-shape", f"{desc}: wells.shape {wells.shape} != ({rows_ids}, {cols})")
            if vols.shape != (real_rows, cols):
                obs.bad("C20/volumes-shape", f"{desc}: volumes.shape {vols.shape} != ({real_rows}, {cols})")
            if tuple(lw.shape) != tuple(wells.shape) or lw.n_rows != wells.shape[0] or lw.n_columns != wells.shape[1]:
                obs.bad("C20/shape-attrs", f"{desc}: shape {lw.shape}, n_rows {lw.n_rows}, n_columns {lw.n_columns} vs wells {wells.shape}")
            ids = set()
            nviol = len(obs.violations)
            for r in range(wells.shape[0]):
                for c in range(wells.shape[1]):
                    w = str(wells[r, c])
                    ids.add(w)
                    if r < 26 and w != wid(r, c):
                        obs.bad("C20/id-grammar", f"{desc}: wells[{r},{c}] = {w!r}")
                        break
                    want = (0, c) if ctor != "Labware" else (r, c)
                    if tuple(lw.indices.get(w, ())) != want:
                        obs.bad("C20/indices", f"{desc}: indices[{w}] = {lw.indices.get(w)} expected {want}")
                        break
                if len(obs.violations) > nviol:
                    break
            if len(obs.violations) == nviol and set(lw.indices.keys()) != ids:
                obs.bad("C20/indices-keys", f"{desc}: indices has {len(lw.indices)} keys, wells has {len(ids)} ids")
        if not np.all(np.isfinite(vols)):
            obs.bad("C20/volumes-not-finite", f"{desc}: volumes contain {vols[~np.isfinite(vols)][:2]}")
        elif np.any(vols < 0) or np.any(vols > lw.max_volume):
            obs.bad("C20/volumes-out-of-range", f"{desc}: volumes outside [0, max_volume]")
        if not (0 <= lw.min_volume < lw.max_volume):
            obs.bad("C20/limits", f"{desc}: min_volume {lw.min_volume}, max_volume {lw.max_volume}")
        # layout
        if expect != "reject" and ok_sizes and vols.shape == (real_rows, cols):
            init = case["init"]
            if init["t"] == "none":
                want = np.zeros((real_rows, cols))
            elif init["t"] == "scalar":
                want = np.full((real_rows, cols), float(_v(init["v"])))
            elif init["t"] == "2d":
                want = np.array([[_v(x) for x in row] for row in init["v"]], dtype=float)
            else:
                fl = [float(_v(x)) for x in init["v"]]
                want = np.array([[fl[(r * cols + c) % len(fl)] for c in range(cols)] for r in range(real_rows)]) if len(fl) == real_rows * cols else None
            if want is not None and want.shape == vols.shape and not np.array_equal(want, vols):
                obs.bad("C20/layout", f"{desc}: volumes {vols.tolist()[:3]} are not laid out as given {want.tolist()[:3]}")
        if isinstance(case["init"].get("v"), list) and case["init"]["t"] in ("2d", "percol-array") and expect != "reject":
            # build once more from an array object that is changed afterwards
            arr = np.array([[_v(x) for x in row] for row in case["init"]["v"]], dtype=float) if case["init"]["t"] == "2d" else np.array([_v(x) for x in case["init"]["v"]], dtype=float)
            import robotools

            try:
                if ctor == "Trough":
                    lw2 = robotools.Trough("Lab2", case["vrows"], cols, min_volume=_v(case["min"]), max_volume=_v(case["max"]), initial_volumes=arr)
                else:
                    lw2 = robotools.Labware("Lab2", case["rows"], cols, min_volume=_v(case["min"]), max_volume=_v(case["max"]), initial_volumes=arr, **({"virtual_rows": case["vrows"]} if ctor == "LabwareV" else {}))
                v0 = lw2.volumes
                arr += 1.0
                if not np.array_equal(lw2.volumes, v0) or not np.array_equal(lw2.history[0][1], v0):
                    obs.bad("C20/aliases-caller-array", f"{desc}: changing the array passed as initial_volumes changed the labware's volumes/history")
            except ValueError:
                pass
        h = lw.history
        if len(h) != 1 or h[0][0] != "initial" or not np.array_equal(h[0][1], vols, equal_nan=True):
            obs.bad("C20/history", f"{desc}: history is {[(a, b.tolist()) for a, b in h][:2]}")
        comp = lw.composition
        for idx in np.ndindex(vols.shape):
            present = [(k, float(a[idx])) for k, a in comp.items() if a.shape == vols.shape and a[idx] != 0]
            if vols[idx] > 0 and (len(present) != 1 or present[0][1] != 1.0):
                obs.bad("C20/components", f"{desc}: filled well {idx} has components {present}")
                break
            if not (vols[idx] > 0) and present:
                obs.bad("C20/components", f"{desc}: empty well {idx} has components {present}")
                break
        for k, a in comp.items():
            if a.shape != vols.shape:
                obs.bad("C20/composition-shape", f"{desc}: composition[{k!r}].shape {a.shape} != volumes.shape {vols.shape}")
                break
        if case["names"] and expect == "accept":
            if case["names"]["t"] == "dict":
                for w, nm in case["names"]["v"].items():
                    if nm is not None and (nm not in comp or comp[nm][lw.indices[w]] != 1.0):
                        obs.bad("C20/given-name", f"{desc}: component name {nm!r} for {w} not honoured")
            else:
                for c, nm in enumerate(case["names"]["v"]):
                    if nm is not None and (nm not in comp or comp[nm][0, c] != 1.0):
                        obs.bad("C20/given-name", f"{desc}: column name {nm!r} for column {c + 1} not honoured")
    except Exception as e:  # noqa  - an accepted object whose attributes cannot even be read
        obs.bad("C20/broken-object", f"{desc}: accepted, but reading its attributes raised {type(e).__name__}: {e}")
    if expect == "accept" and isinstance(rows_ids, int) and isinstance(cols, int):
        nonuniform = len(set(np.asarray(lw.volumes).flatten().tolist())) > 1
        obs.nontrivial = rows_ids != cols and nonuniform
    return obs
