"""C10 - tip selections encode to the Tecan tip bit mask."""
import itertools

from hypothesis import strategies as st

from vf.core import Obs

PID = "C10"
RULE = (
    "case = one tip argument (scalar int / Tip member / Tip.Any / invalid scalar, or a list/tuple/set/iterator of "
    "int and Tip symbols, possibly with one invalid member) that is sent through every entry point accepting "
    "tip/tips: aspirate_well, dispense_well, aspirate, dispense, transfer, evo_aspirate, evo_dispense, evo_wash. "
    "Enumerated: all sequences of length 1..3 over the 16 symbols {1..8, T1..T8} (4368), all 255 subsets as sorted "
    "int list / Tip tuple / int set / Tip set / iterator / reversed mixed list with a duplicate, all scalars, "
    "Tip.Any, and invalid members alone and inside collections. Generated: permutations with duplicates and mixed "
    "representation of random subsets. Non-trivial = collection with >= 2 members that has a repeat or is not "
    "sorted; distinct by canonical JSON."
)
ASSUMPTIONS = [
    "mask field (10th field of A/D records, 1st argument of script commands) == OR of 2^(n-1) over the members",
    "EVO script commands: ascending distinct tips must be accepted with exact per-tip slots; repeated or non-ascending tips are either rejected or accepted with mask == OR of the tips and volume slots exactly at the selected tips (C13 decides the pairing)",
    "one-shot iterators are only sent to aspirate_well/dispense_well (one call consumes them)",
    "empty collections, bool and numpy integers are not generated (undetermined)",
]
BUDGET = {"quick": (4, 150), "thorough": (16, 1500)}
ENUM_SPACE = "all sequences of length 1..3 over {1..8, Tip.T1..Tip.T8}; all 255 non-empty subsets x 6 representations; 16 scalars + Tip.Any; 7 invalid members alone and inside a collection at each position"
KNOWN_KINDS = {}

INVALID = [["i", 0], ["i", 9], ["i", -1], ["f", 1.5], ["s", "1"], ["none", 0], ["any", 0], ["i", 256]]


def enumerate_cases(tier):
    syms = [["i", n] for n in range(1, 9)] + [["T", n] for n in range(1, 9)]
    for n in (1, 2, 3):
        for seq in itertools.product(syms, repeat=n):
            yield {"tips": [list(s) for s in seq], "container": "list"}
    for bits in range(1, 256):
        members = [n for n in range(1, 9) if bits >> (n - 1) & 1]
        yield {"tips": [["i", n] for n in members], "container": "list"}
        yield {"tips": [["T", n] for n in members], "container": "tuple"}
        yield {"tips": [["i", n] for n in members], "container": "set"}
        yield {"tips": [["T", n] for n in members], "container": "set"}
        yield {"tips": [["T" if n % 2 else "i", n] for n in members], "container": "iter"}
        rev = [["i" if n % 2 else "T", n] for n in reversed(members)]
        yield {"tips": rev + [rev[0]], "container": "list"}
    for s in syms:
        yield {"tips": [s], "container": "scalar"}
    yield {"tips": [["any", 0]], "container": "scalar"}
    for inv in INVALID:
        if inv[0] != "any":
            yield {"tips": [inv], "container": "scalar"}
        yield {"tips": [inv], "container": "list"}
        yield {"tips": [["i", 2], inv], "container": "list"}
        yield {"tips": [inv, ["T", 5]], "container": "tuple"}
        yield {"tips": [["T", 1], inv, ["i", 8]], "container": "list"}


@st.composite
def _generated(draw):
    members = draw(st.lists(st.integers(1, 8), min_size=1, max_size=8, unique=True))
    extra = draw(st.lists(st.sampled_from(members), min_size=0, max_size=4))
    seq = draw(st.permutations(members + extra))
    reps = draw(st.lists(st.sampled_from(["i", "T"]), min_size=len(seq), max_size=len(seq)))
    tips = [[k, n] for k, n in zip(reps, seq)]
    if draw(st.integers(0, 9)) == 0:
        tips.insert(draw(st.integers(0, len(tips))), draw(st.sampled_from(INVALID)))
    return {"tips": tips, "container": draw(st.sampled_from(["list", "tuple"]))}


def strategy(tier):
    return _generated()


def _materialise(case):
    from robotools import Tip

    members = [Tip.T1, Tip.T2, Tip.T3, Tip.T4, Tip.T5, Tip.T6, Tip.T7, Tip.T8]

    def one(sym):
        k, n = sym
        if k == "i":
            return n
        if k == "T":
            return members[n - 1]
        if k == "any":
            return Tip.Any
        if k == "f":
            return float(n)
        if k == "s":
            return str(n)
        return None

    vals = [one(s) for s in case["tips"]]
    c = case["container"]
    if c == "scalar":
        return lambda: vals[0]
    if c == "list":
        return lambda: list(vals)
    if c == "tuple":
        return lambda: tuple(vals)
    if c == "set":
        return lambda: set(vals)
    if c == "iter":
        return lambda: iter(list(vals))
    raise ValueError(c)


def _expected(case):
    """-> ("mask", int) | ("any",) | ("reject",)"""
    tips = case["tips"]
    if case["container"] == "scalar":
        k, n = tips[0]
        if k == "any":
            return ("any",)
        if k in ("i", "T") and 1 <= n <= 8:
            return ("mask", 1 << (n - 1))
        return ("reject",)
    mask = 0
    for k, n in tips:
        if k in ("i", "T") and 1 <= n <= 8:
            mask |= 1 << (n - 1)
        else:
            return ("reject",)
    return ("mask", mask)


def _split_args(rec):
    inner = rec[rec.index("(") + 1 : rec.rindex(")")]
    return inner.split(",")


def check_case(case) -> Obs:
    import robotools

    obs = Obs()
    obs.units = 0
    make = _materialise(case)
    exp = _expected(case)
    container = case["container"]
    tips = case["tips"]
    obs.cls("container:" + container, "expect:" + exp[0])
    exp_field = {"mask": str(exp[1]) if exp[0] == "mask" else None, "any": "", "reject": None}[exp[0]]

    def ad_field(rec):
        f = rec.split(";")
        return f[9] if len(f) == 11 else f"<{len(f)} fields>"

    def run(entry, call, n_expected_records, wl):
        obs.units += 1
        before = len(wl)
        try:
            call()
        except Exception as exc:
            if exp[0] != "reject":
                obs.bad("C10/valid-rejected", f"{entry}: tip={tips} ({container}) raised {type(exc).__name__}: {exc}")
            if len(wl) != before:
                obs.bad("C10/appended-on-reject", f"{entry}: tip={tips} ({container}) raised but appended {wl[before:]}")
            return None
        if exp[0] == "reject":
            obs.bad("C10/invalid-accepted", f"{entry}: tip={tips} ({container}) accepted; records {wl[before:]}")
            return None
        recs = [r for r in wl[before:] if r[:2] in ("A;", "D;")]
        if len(recs) != n_expected_records:
            obs.bad("C10/record-count", f"{entry}: {len(recs)} A/D records, expected {n_expected_records}")
        for r in recs:
            if ad_field(r) != exp_field:
                obs.bad("C10/mask", f"{entry}: tip={tips} ({container}) -> mask field {ad_field(r)!r}, expected {exp_field!r} in {r!r}")
        return recs

    # every call stands for itself: calls that were refused part-way (valid tips followed by an invalid one) come first,
    # naming tips the case does not use
    used = {n for k, n in tips if k in ("i", "T") and isinstance(n, int)}
    others = [n for n in range(1, 9) if n not in used] or [1]
    Tip = robotools.Tip
    tip_member = [Tip.T1, Tip.T2, Tip.T3, Tip.T4, Tip.T5, Tip.T6, Tip.T7, Tip.T8][others[-1] - 1]

    def refused_before(wl):
        for bad in ([others[0], 9], (tip_member, 0), [others[0], "x"], [tip_member, Tip.Any]):
            try:
                wl.aspirate_well("L", 1, 5.0, tip=bad)
            except Exception:
                pass
            else:
                del wl[:]
        try:
            wl.evo_wash(tips=[others[0], 9], waste_location=(52, 2), cleaner_location=(52, 1))
        except Exception:
            pass
        else:
            del wl[:]

    for cls in (robotools.EvoWorklist, robotools.FluentWorklist):
        dev = cls.__name__[:3]
        wl = cls()
        refused_before(wl)
        run(f"{dev}.aspirate_well", lambda: wl.aspirate_well("L", 1, 5.0, tip=make()), 1, wl)
        run(f"{dev}.dispense_well", lambda: wl.dispense_well("L", 2, 5.0, tip=make()), 1, wl)
        if container != "iter":
            A = robotools.Labware("A", 3, 2, min_volume=0, max_volume=1000, initial_volumes=500)
            B = robotools.Labware("B", 3, 2, min_volume=0, max_volume=1000, initial_volumes=100)
            wl.max_volume = 100  # 300 is split into 3 pairs
            run(f"{dev}.aspirate", lambda: wl.aspirate(A, ["A01", "B02"], [3, 4], tip=make()), 2, wl)
            run(f"{dev}.dispense", lambda: wl.dispense(B, ["A01", "C01"], 5, tip=make()), 2, wl)
            # together with other pass-through arguments in every other case (the mask belongs to both records of a pair regardless)
            extra = {"rack_id": "BC-1", "tube_id": "t9", "liquid_class": "LC"} if (len(tips) + len(dev)) % 2 == 0 else {}
            recs = run(f"{dev}.transfer", lambda: wl.transfer(A, ["A01", "B01"], B, ["B02", "A02"], [7, 300], tip=make(), wash_scheme="reuse", **extra), 8, wl)
            if recs:
                for a, d in zip(recs[0::2], recs[1::2]):
                    if a[0] != "A" or d[0] != "D" or ad_field(a) != ad_field(d):
                        obs.bad("C10/pair-mask", f"{dev}.transfer: pair {a!r} / {d!r} carries different masks")

    # EVO script commands (tips must be a sequence)
    if container in ("list", "tuple"):
        valid = all(k in ("i", "T") and 1 <= n <= 8 for k, n in tips)
        nums = [n for k, n in tips]
        distinct = len(set(nums)) == len(nums)
        ascending = valid and distinct and nums == sorted(nums)
        ntips = len(tips)
        if ntips <= 8:
            P = robotools.Labware("P", 8, 2, min_volume=0, max_volume=2000, initial_volumes=500)
            if valid and distinct:
                # wells in the same relative order as the tips, so that tip i serves its own well
                rank = {n: k for k, n in enumerate(sorted(nums))}
                wells = [f"{'ABCDEFGH'[rank[n]]}01" for n in nums]
            else:
                wells = [f"{'ABCDEFGH'[i]}01" for i in range(ntips)]
            vols = [10.0 + i for i in range(ntips)]
            if valid and distinct and ntips >= 2 and (sum(nums) + ntips) % 3 == 0:
                # a selected tip may have nothing to do in this step (0 uL, or less than half a hundredth): it stays selected
                vols[(sum(nums)) % ntips] = 0.0 if sum(nums) % 2 else 0.004
                obs.cls("evo-zero-volume-tip")
            for name in ("evo_aspirate", "evo_dispense"):
                wl = robotools.EvoWorklist()
                obs.units += 1
                try:
                    getattr(wl, name)(P, wells, (12, 3), make(), list(vols), "LC")
                except Exception as exc:
                    if valid and ascending:
                        obs.bad("C10/evo-valid-rejected", f"{name}: tips={tips} raised {type(exc).__name__}: {exc}")
                    if len(wl):
                        obs.bad("C10/appended-on-reject", f"{name}: tips={tips} raised but appended {list(wl)}")
                    continue
                if not valid:
                    obs.bad("C10/evo-invalid-accepted", f"{name}: tips={tips} accepted: {list(wl)}")
                    continue
                args = _split_args(wl[-1])
                mask = 0
                for n in nums:
                    mask |= 1 << (n - 1)
                if args[0] != str(mask):
                    obs.bad("C10/evo-mask", f"{name}: tips={tips} -> tip mask {args[0]}, expected {mask} ({wl[-1]!r})")
                else:
                    order = sorted(set(nums))
                    for slot in range(1, 9):
                        got = args[1 + slot]
                        if slot in order:
                            # the slot of tip i holds the volume that was given for tip i
                            want = vols[nums.index(slot)] if distinct else None
                            if got.strip('"') == got or (want is not None and abs(float(got.strip('"')) - want) > 0.005):
                                obs.bad("C10/evo-slot", f"{name}: tips={tips}: slot of tip {slot} holds {got}, expected \"{want}\"")
                        elif got != "0":
                            obs.bad("C10/evo-slot", f"{name}: tips={tips}: slot of unused tip {slot} holds {got}")
        # evo_wash
        wl = robotools.EvoWorklist()
        obs.units += 1
        try:
            wl.evo_wash(tips=make(), waste_location=(52, 2), cleaner_location=(52, 1))
        except Exception as exc:
            if valid and distinct:
                obs.bad("C10/wash-valid-rejected", f"evo_wash: tips={tips} raised {type(exc).__name__}: {exc}")
            if len(wl):
                obs.bad("C10/appended-on-reject", f"evo_wash: tips={tips} raised but appended {list(wl)}")
        else:
            if not valid:
                obs.bad("C10/wash-invalid-accepted", f"evo_wash: tips={tips} accepted: {list(wl)}")
            else:
                mask = 0
                for n in nums:
                    mask |= 1 << (n - 1)
                args = _split_args(wl[-1])
                if args[0] != str(mask):
                    obs.bad("C10/wash-mask", f"evo_wash: tips={tips} -> tip mask {args[0]}, expected {mask}")

    if container != "scalar" and len(tips) >= 2:
        nums = [n for k, n in tips]
        if len(set(map(str, nums))) < len(nums) or nums != sorted(nums, key=lambda x: (str(type(x)), x)):
            obs.nontrivial = True
    if container != "scalar" and len({k for k, n in tips}) > 1:
        obs.cls("mixed-representation")
    return obs
