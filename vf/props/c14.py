"""C14 - a DilutionPlan is self-consistent and executable as planned."""
import math
from fractions import Fraction

import numpy as np
from hypothesis import strategies as st

from vf.core import Obs

PID = "C14"
RULE = (
    "case = a planning request (xmin, xmax, R in 1..16, C in 1..24, stock, mode log/linear, vmax scalar or per column "
    "in 30..2000, min_transfer in 1..100, concentration ratios from 1 to 10^6) and, for a part of the cases, an "
    "execution set-up for to_worklist: device, worklist max_volume, stock / diluent troughs with 1..16 virtual rows "
    "(possibly fewer than R) and 1..2 columns, dilution plate >= RxC with min_volume 0, optional destination plate "
    "with a v_destination within the plan's budget, mix_repeat 0..2, mix_wash scheme. Every returned plan is checked; "
    "requests that cannot be met must raise ValueError. Non-trivial = returned plan with >= 1 serially diluted "
    "column; distinct by canonical JSON."
)
ASSUMPTIONS = [
    "concentrations are recomputed from the instructions in rational arithmetic and compared with 1e-9 relative tolerance",
    "a column prepared to vmax[c] can supply at most vmax[c] per well to the columns (and the destination plate) drawn from it",
    "execution on fresh labware: troughs hold v_stock / v_diluent plus a reserve, plate limits never interfere",
]
BUDGET = {"quick": (4, 1500), "thorough": (16, 8000)}
KNOWN_KINDS = {}
STRATA = ["plan-log", "plan-linear", "plan-vector-vmax", "plan-vector-vmax", "execute"]
REQUIRED_CLASSES = ["planned", "ValueError", "serial", "stock-only", "two-columns-from-one-source", "executed", "executed:destination", "executed:evo", "executed:fluent", "vector-vmax"]


@st.composite
def _case(draw, stratum):
    execute = stratum == "execute"
    R = draw(st.integers(1, 8 if execute else 16))
    C = draw(st.integers(1, 8 if execute else 24))
    stock = draw(st.sampled_from([10.0, 100.0, 1.0, 30.0, 2000.0, 0.5]))
    if draw(st.booleans()):
        stock = draw(st.floats(0.1, 5000, allow_nan=False).map(lambda x: round(x, 3)))
    xmax = stock * draw(st.sampled_from([1.0, 1.0, 0.5, 0.9, 0.1, 0.33]))
    mode = "linear" if stratum == "plan-linear" else ("log" if stratum == "plan-log" else draw(st.sampled_from(["log", "linear"])))
    if mode == "log":
        # up to twelve decades: the far end of such a series holds a 1e-12 part of stock
        ratio = 10 ** draw(st.one_of(st.floats(0, 6, allow_nan=False), st.floats(0, 6, allow_nan=False), st.floats(6, 12, allow_nan=False)))
    else:
        ratio = draw(st.sampled_from([1.0, 1.01, 2.0, 10.0, 50.0, 1000.0]))
        if draw(st.booleans()):
            ratio = 1 + draw(st.floats(0, 200, allow_nan=False))
    xmin = xmax / ratio
    if stratum == "plan-vector-vmax" or (execute and draw(st.integers(0, 3)) == 0):
        levels = draw(st.lists(st.integers(30, 2000), min_size=1, max_size=3))
        vmax = [float(levels[i % len(levels)]) for i in range(C)]
    else:
        vmax = float(draw(st.one_of(st.sampled_from([100, 200, 950, 1000, 30]), st.integers(30, 2000))))
    min_transfer = float(draw(st.one_of(st.sampled_from([1, 5, 10, 20]), st.integers(1, 100), st.sampled_from([20.3, 0.5, 7.75, 49.9, 1.01]))))
    case = {"xmin": xmin, "xmax": xmax, "R": R, "C": C, "stock": stock, "mode": mode, "vmax": vmax, "min_transfer": min_transfer, "exec": None}
    if execute:
        case["exec"] = {
            "device": draw(st.sampled_from(["evo", "fluent"])),
            "M": draw(st.sampled_from([50, 200, 950, 1200, 33.3])),
            "stock_vrows": draw(st.integers(1, 16)),
            "stock_cols": draw(st.integers(1, 2)),
            "stock_col": draw(st.integers(0, 1)),
            "dil_vrows": draw(st.integers(1, 16)),
            "dil_cols": draw(st.integers(1, 2)),
            "dil_col": draw(st.integers(0, 1)),
            "extra_rows": draw(st.integers(0, 2)),
            "extra_cols": draw(st.integers(0, 2)),
            "destination": draw(st.sampled_from([None, 0.2, 0.5, 0.9])),
            "mix_repeat": draw(st.integers(0, 2)),
            "mix_wash": draw(st.sampled_from([1, 2, 3, "flush", "reuse"])),
        }
        # stock and diluent as two columns of ONE reservoir object (a quarter of the executions)
        case["exec"]["shared"] = (case["exec"]["stock_vrows"] + case["exec"]["dil_vrows"]) % 4 == 0
    return case


def strategy(tier, stratum):
    return _case(stratum)


def _check_plan(obs, case, plan):
    R, C = case["R"], case["C"]
    vmax = case["vmax"] if isinstance(case["vmax"], list) else [case["vmax"]] * C
    mt = case["min_transfer"]
    stock = Fraction(case["stock"])
    desc = f"DilutionPlan(xmin={case['xmin']!r}, xmax={case['xmax']!r}, R={R}, C={C}, stock={case['stock']!r}, mode={case['mode']!r}, vmax={case['vmax'] if not isinstance(case['vmax'], list) else case['vmax'][:6]}, min_transfer={mt})"
    ins = plan.instructions
    if len(ins) != C or [i[0] for i in ins] != list(range(C)):
        obs.bad("C14/instructions", f"{desc}: {len(ins)} instructions for columns {[i[0] for i in ins]} (expected one per column 0..{C - 1})")
        return None
    conc = {}
    drawn = {c: [Fraction(0)] * R for c in range(C)}
    fan = {}
    serial = False
    for c, dsteps, src, v in ins:
        v = np.asarray(v, dtype=float)
        if v.shape != (R,):
            obs.bad("C14/volume-shape", f"{desc}: instruction for column {c} has {v.shape} volumes")
            return None
        if src == "stock":
            base = [stock] * R
            if dsteps != 0:
                obs.bad("C14/steps", f"{desc}: column {c} from stock with {dsteps} dilution steps")
        else:
            if not isinstance(src, (int, np.integer)) or not (0 <= src < c) or src not in conc:
                obs.bad("C14/source-order", f"{desc}: column {c} is prepared from {src!r}, which is not prepared earlier")
                return None
            base = conc[src]
            serial = True
            fan[int(src)] = fan.get(int(src), 0) + 1
        for r in range(R):
            x = float(v[r])
            if x != round(x):
                obs.bad("C14/not-integer", f"{desc}: column {c} row {r}: transfer volume {x!r} is not a whole number of µL")
                return None
            if x < mt:
                obs.bad("C14/below-min-transfer", f"{desc}: column {c} row {r}: transfer volume {x} < min_transfer {mt}")
            if x > vmax[c]:
                obs.bad("C14/above-vmax", f"{desc}: column {c} row {r}: transfer volume {x} > vmax {vmax[c]} of the target column")
            if src != "stock":
                drawn[int(src)][r] += Fraction(x)
        conc[c] = [Fraction(float(v[r])) * base[r] / Fraction(vmax[c]) for r in range(R)]
    for c in range(C):
        for r in range(R):
            if drawn[c][r] > Fraction(vmax[c]):
                obs.bad("C14/overdrawn", f"{desc}: column {c} row {r} holds {vmax[c]} µL but the plan draws {float(drawn[c][r])} µL from it (instructions {[(i[0], i[2], np.asarray(i[3]).tolist()[:3]) for i in ins][:6]})")
                break
        if obs.violations:
            break
    x = np.asarray(plan.x, dtype=float)
    if x.shape != (R, C):
        obs.bad("C14/x-shape", f"{desc}: x.shape {x.shape}")
        return None
    for c in range(C):
        for r in range(R):
            want = float(conc[c][r])
            if abs(x[r, c] - want) > 1e-9 * max(abs(want), 1e-300):
                obs.bad("C14/concentration", f"{desc}: x[{r},{c}] = {x[r, c]!r}, the instructions imply {want!r}")
                break
        if obs.violations:
            break
    v_stock = sum(float(np.sum(i[3])) for i in ins if i[2] == "stock")
    if abs(float(plan.v_stock) - v_stock) > 1e-9 * max(1, v_stock):
        obs.bad("C14/v_stock", f"{desc}: v_stock {plan.v_stock} != sum of stock transfers {v_stock}")
    v_dil = R * sum(vmax) - v_stock
    if abs(float(plan.v_diluent) - v_dil) > 1e-9 * max(1, abs(v_dil)):
        obs.bad("C14/v_diluent", f"{desc}: v_diluent {plan.v_diluent} != R*sum(vmax) - v_stock = {v_dil}")
    if serial:
        obs.cls("serial")
    else:
        obs.cls("stock-only")
    if any(n >= 2 for n in fan.values()):
        obs.cls("two-columns-from-one-source")
    return {"conc": conc, "drawn": drawn, "vmax": vmax, "serial": serial, "v_stock": v_stock, "v_dil": v_dil, "desc": desc}


def _execute(obs, case, plan, info):
    import robotools

    ex = case["exec"]
    R, C = case["R"], case["C"]
    vmax = info["vmax"]
    stock_name, dil_name = "stock-liquid", "diluent-liquid"
    scols, dcols = ex["stock_cols"], ex["dil_cols"]
    scol, dcol = ex["stock_col"] % scols, ex["dil_col"] % dcols
    s_init = [0.0] * scols
    s_init[scol] = info["v_stock"] + 1000.0
    # every third execution (whole-number pipetting steps only): the stock reservoir holds exactly v_stock above a min_volume of 0
    exact_stock = (R + 2 * C) % 3 == 0 and float(ex["M"]) == int(ex["M"]) and info["v_stock"] > 0 and not ex.get("shared")
    smin = 500.0
    if exact_stock:
        s_init[scol] = float(info["v_stock"])
        smin = 0.0
        obs.cls("executed:stock-used-up")
    d_init = [0.0] * dcols
    d_init[dcol] = max(info["v_dil"], 0) + 1000.0
    stock = robotools.Trough("Stocks", ex["stock_vrows"], scols, min_volume=smin, max_volume=1e9, initial_volumes=s_init, column_names=[stock_name if i == scol else None for i in range(scols)])
    diluent = robotools.Trough("Diluents", ex["dil_vrows"], dcols, min_volume=500.0, max_volume=1e9, initial_volumes=d_init, column_names=[dil_name if i == dcol else None for i in range(dcols)])
    dcol_arg = dcol
    if ex.get("shared"):
        both = robotools.Trough("Reservoir", ex["stock_vrows"], scols + dcols, min_volume=500.0, max_volume=1e9, initial_volumes=s_init + d_init, column_names=[stock_name if i == scol else None for i in range(scols)] + [dil_name if i == dcol else None for i in range(dcols)])
        stock = diluent = both
        dcol_arg = scols + dcol
        obs.cls("executed:one-reservoir")
    plate = robotools.Labware("Dilution", R + ex["extra_rows"], C + ex["extra_cols"], min_volume=0, max_volume=1e6)
    dest = None
    v_dest = None
    if ex["destination"] is not None:
        # what every column can still give after feeding the columns prepared from it
        room = min(float(Fraction(vmax[c]) - max(info["drawn"][c])) for c in range(C))
        v_dest = math.floor(room * ex["destination"])
        if v_dest >= 1:
            dest = robotools.Labware("Destination", R, C, min_volume=0, max_volume=1e6)
        else:
            v_dest = None
    cls = robotools.EvoWorklist if ex["device"] == "evo" else robotools.FluentWorklist
    wl = cls(max_volume=ex["M"])
    try:
        plan.to_worklist(
            worklist=wl,
            stock=stock,
            stock_column=scol,
            diluent=diluent,
            diluent_column=dcol_arg,
            dilution_plate=plate,
            destination_plate=dest,
            v_destination=v_dest,
            mix_repeat=ex["mix_repeat"],
            mix_wash=ex["mix_wash"],
        )
    except Exception as e:  # noqa
        obs.bad("C14/execution-failed", f"{info['desc']}.to_worklist({ex}) raised {type(e).__name__}: {e}")
        return
    obs.cls("executed", "executed:" + ex["device"])
    if dest is not None:
        obs.cls("executed:destination")
    comp = plate.composition
    x = np.asarray(plan.x, dtype=float)
    frac = comp.get(stock_name)
    for c in range(C):
        for r in range(R):
            got = float(frac[r, c]) * case["stock"] if frac is not None else 0.0
            if abs(got - x[r, c]) > 1e-9 * max(abs(x[r, c]), 1e-300):
                obs.bad("C14/executed-concentration", f"{info['desc']}: after to_worklist well ({r},{c}) holds {got!r} (composition tracking), the plan reports {x[r, c]!r}")
                return
            if dest is not None:
                dfrac = dest.composition.get(stock_name)
                gd = float(dfrac[r, c]) * case["stock"] if dfrac is not None else 0.0
                if abs(gd - x[r, c]) > 1e-9 * max(abs(x[r, c]), 1e-300) or abs(dest.volumes[r, c] - v_dest) > 1e-6:
                    obs.bad("C14/destination", f"{info['desc']}: destination well ({r},{c}) holds {dest.volumes[r, c]} µL at {gd!r}, expected {v_dest} µL at {x[r, c]!r}")
                    return
    used_stock = s_init[scol] - float(stock.volumes[0, scol])
    used_dil = d_init[dcol] - float(diluent.volumes[0, dcol_arg])
    if abs(used_stock - info["v_stock"]) > 1e-6:
        obs.bad("C14/stock-consumption", f"{info['desc']}: to_worklist consumed {used_stock} µL stock, v_stock is {info['v_stock']}")
    if used_dil > float(plan.v_diluent) + 1e-6:
        obs.bad("C14/diluent-consumption", f"{info['desc']}: to_worklist consumed {used_dil} µL diluent, v_diluent is {plan.v_diluent}")
    want_dil = sum(float(Fraction(vmax[i[0]]) * 1) * 0 + sum(vmax[i[0]] - float(v) for v in np.asarray(i[3], dtype=float)) for i in plan.instructions)
    if abs(used_dil - want_dil) > 1e-6:
        obs.bad("C14/diluent-consumption", f"{info['desc']}: consumed {used_dil} µL diluent, the instructions need {want_dil}")


def check_case(case) -> Obs:
    import robotools

    obs = Obs()
    obs.cls("mode:" + case["mode"])
    if isinstance(case["vmax"], list):
        obs.cls("vector-vmax")
    try:
        plan = robotools.DilutionPlan(xmin=case["xmin"], xmax=case["xmax"], R=case["R"], C=case["C"], stock=case["stock"], mode=case["mode"], vmax=case["vmax"], min_transfer=case["min_transfer"])
    except ValueError:
        obs.cls("ValueError")
        return obs
    except Exception as e:  # noqa
        obs.bad("C14/wrong-exception", f"DilutionPlan({ {k: case[k] for k in ('xmin', 'xmax', 'R', 'C', 'stock', 'mode', 'vmax', 'min_transfer')} }) raised {type(e).__name__}: {e}")
        return obs
    obs.cls("planned")
    info = _check_plan(obs, case, plan)
    if info is None or obs.violations:
        return obs
    obs.nontrivial = info["serial"]
    if case["exec"] is not None:
        how = (case["R"] + case["C"]) % 3
        if how:
            # the plan that is executed was copied or went through pickle (saved to disk, sent to a worker process)
            from vf.lab import clone

            plan = clone(plan, "deepcopy" if how == 1 else "pickle")
            obs.cls("plan-cloned:" + ("deepcopy" if how == 1 else "pickle"))
        _execute(obs, case, plan, info)
    return obs
