"""C09 - every record is well-formed and carries exactly the arguments given."""
import math
import re
from fractions import Fraction

from hypothesis import strategies as st

from vf import gwl
from vf.core import Obs

PID = "C09"
RULE = (
    "case = one call of a record-emitting worklist method (comment, wash, decontaminate, flush, commit, set_diti in "
    "three contexts, aspirate_well, dispense_well, reagent_distribution, or aspirate / dispense / transfer / "
    "distribute with pass-through keyword arguments) with an argument tuple drawn from: valid values (text fields over "
    "printable Latin-1 of length 0..40, volumes over the accepted range, ...), values the property lists as "
    "unrepresentable (';' in a text field, label/id/type longer than 32, negative / NaN / inf / oversized volume, "
    "negative or fractional position, scheme outside 1..4, invalid direction, excluded well outside the range, "
    "set_diti in the wrong place, decontaminate in DiTi mode) and undetermined values (position 0, 2.0 for a scheme, "
    "...). Streams: 'valid' (all fields valid, most non-default), 'one-invalid' (exactly one listed invalidity, all "
    "other fields valid and non-default), 'mixed'. Non-trivial = accepted call with >= 3 non-default fields, or "
    "rejected call with exactly one invalid field; distinct by canonical JSON."
)
ASSUMPTIONS = [
    "expectation from the property text: any listed invalidity -> must raise and append nothing; all fields clearly valid -> must be accepted; anything else -> either, but an accepted call must still decode to its arguments",
    "independent record parser vf/gwl.py; volume fields ^\\d+\\.\\d{2}$ within 0.005 of the argument; R volumes within 0.005 and without exponent (volumes >= 0.01)",
    "multi-dispense count: requested if requested*volume <= max_volume, else the largest count that fits",
    "text is printable Latin-1 without control characters; '\\n' only inside comments",
]
BUDGET = {"quick": (4, 1200), "thorough": (16, 20000)}
KNOWN_KINDS = {"C09/F20-label-comment-before-validation": "F20"}
STRATA = [[m, s] for m in ("well", "rd", "simple", "passthrough") for s in ("valid", "one-invalid", "mixed")]
REQUIRED_CLASSES = ["accepted", "rejected", "method:aspirate_well", "method:dispense_well", "method:reagent_distribution", "method:comment", "method:wash", "method:set_diti", "method:decontaminate", "method:aspirate", "method:dispense", "method:transfer", "method:distribute"]

LATIN = [chr(c) for c in list(range(0x20, 0x7F)) + list(range(0xA0, 0x100)) if chr(c) != ";"]
txt = lambda n: st.text(alphabet=LATIN, min_size=0, max_size=n)  # noqa: E731
txt1 = lambda n: st.text(alphabet=LATIN, min_size=1, max_size=n)  # noqa: E731
semi = st.tuples(txt(8), txt(8)).map(lambda ab: ab[0] + ";" + ab[1])
too_long = st.text(alphabet=LATIN, min_size=33, max_size=40)

# ---- field value strategies: (valid, invalid-as-listed, undetermined)
F_LABEL = (txt1(32), st.one_of(semi, too_long), st.nothing())
F_ID = (txt(32), st.one_of(semi, too_long), st.nothing())
F_LC = (txt(40), semi, st.nothing())
F_TUBE = (txt(40), semi, st.nothing())
F_FORCED = (txt(32), semi, too_long)
F_POS = (st.integers(1, 9999), st.sampled_from([-1, -96, 1.5, 0.5, -2.5]), st.sampled_from([0, 2.0]))
F_DIR = (st.sampled_from(["left_to_right", "right_to_left"]), st.sampled_from(["up", "", "LEFT_TO_RIGHT", "left to right", "0"]), st.nothing())
F_COUNT = (st.integers(1, 12), st.nothing(), st.nothing())
F_LABELTXT = (st.one_of(st.none(), st.just(""), txt(20), st.tuples(txt(10), txt(10)).map(lambda ab: ab[0] + "\n" + ab[1])), semi, st.nothing())
F_TIP = (st.sampled_from(["any", 1, 5, 8, "T2", [1, 2], ["T8", 3]]), st.sampled_from([0, 9, [1, 9]]), st.nothing())


def f_volume(M):
    top = min(M, 7158278)
    valid = st.one_of(st.just(0), st.integers(0, int(min(top, 2000))), st.integers(0, int(min(top, 2000)) * 100).map(lambda i: i / 100), st.floats(0, top, allow_nan=False), st.just(top))
    invalid = st.sampled_from([-1, -0.01, float("nan"), float("inf"), float("-inf"), 7158279, 1e12, round(M + 0.01, 2), M * 2])
    return (valid, invalid, st.nothing())


def f_rd_volume(M):
    valid = st.one_of(st.integers(1, int(min(M, 2000))), st.integers(1, int(min(M, 2000)) * 100).map(lambda i: i / 100), st.floats(0.01, min(M, 7158278), allow_nan=False).map(lambda x: round(x, 3)))
    invalid = st.sampled_from([-1, float("nan"), float("inf"), 7158279.5, round(M + 0.01, 2), M * 3])
    return (valid, invalid, st.just(0))


INV_TEXT32 = ["a;b", ";", "x" * 33, "Z" * 40, ";" * 5]
INV_TEXT = ["a;b", ";", "trailing;"]
INVALID_LIST = {
    "rack_label": INV_TEXT32, "src_rack_label": INV_TEXT32, "dst_rack_label": INV_TEXT32, "name_src": INV_TEXT32, "name_dst": INV_TEXT32,
    "rack_id": INV_TEXT32, "rack_type": INV_TEXT32, "src_rack_id": INV_TEXT32, "src_rack_type": INV_TEXT32, "dst_rack_id": INV_TEXT32, "dst_rack_type": INV_TEXT32,
    "liquid_class": INV_TEXT, "tube_id": INV_TEXT, "forced_rack_type": INV_TEXT,
    "position": [-1, -96, 1.5, 0.5, -2.5],
    "direction": ["up", "", "LEFT_TO_RIGHT", "left to right", "0"],
    "tip": [0, 9, [1, 9]],
    "label": ["a;b", "line 1\nline;2", ";"],
}
VALID_BASE = {
    "rack_label": "Plate µ1", "src_rack_label": "Trough 1", "dst_rack_label": "Plate µ1", "name_src": "Trough 1", "name_dst": "Plate µ1",
    "rack_id": "BC-0042", "rack_type": "96 Well Microplate", "src_rack_id": "S-1", "src_rack_type": "Trough 100ml", "dst_rack_id": "D-2", "dst_rack_type": "96 Well Microplate",
    "liquid_class": "Water free dispense", "tube_id": "tube 7", "forced_rack_type": "forced type", "position": 17, "direction": "right_to_left", "tip": [2, "T5"],
    "diti_reuse": 3, "multi_disp": 4, "label": "Step 7\nsecond line",
}


def enumerate_cases(tier):
    """Every systematic case of a high-level method once per device."""
    for case in _enumerate_cases(tier):
        if case["method"] in ("aspirate", "dispense", "transfer", "distribute"):
            yield dict(case, device="evo")
            yield dict(case, device="fluent")
        else:
            yield case


def _enumerate_cases(tier):
    """Systematic one-invalid-field cases: every listed invalid value of every field of every method, all other
    fields valid and non-default (Hypothesis' generation is too clumpy to guarantee each of them)."""
    groups = {
        "aspirate_well": ["rack_label", "position", "volume", "liquid_class", "tip", "rack_id", "tube_id", "rack_type", "forced_rack_type"],
        "dispense_well": ["rack_label", "position", "volume", "liquid_class", "tip", "rack_id", "tube_id", "rack_type", "forced_rack_type"],
        "reagent_distribution": ["src_rack_label", "dst_rack_label", "volume", "diti_reuse", "multi_disp", "liquid_class", "direction", "src_rack_id", "src_rack_type", "dst_rack_id", "dst_rack_type"],
        "aspirate": ["label", "name_src", "name_dst", "volume", "liquid_class", "tip", "rack_id", "tube_id", "rack_type", "forced_rack_type"],
        "dispense": ["label", "name_src", "name_dst", "volume", "liquid_class", "tip", "rack_id", "tube_id", "rack_type", "forced_rack_type"],
        "transfer": ["label", "name_src", "name_dst", "volume", "liquid_class", "tip", "rack_id", "tube_id", "rack_type", "forced_rack_type"],
        "distribute": ["label", "name_src", "name_dst", "volume", "diti_reuse", "multi_disp", "liquid_class", "direction", "src_rack_id", "src_rack_type", "dst_rack_id", "dst_rack_type"],
    }
    for M in (950, 200):
        for method, names in groups.items():
            base = {n: VALID_BASE[n] for n in names if n in VALID_BASE}
            base["volume"] = 12.34
            inv_vol = [-1, -0.01, {"special": "nan"}, {"special": "inf"}, {"special": "-inf"}, 7158279, 1e12, round(M + 0.01, 2), M * 2]
            extra = {}
            if method in ("reagent_distribution", "distribute"):
                extra = {"range": {"src_start": 1, "src_len": 8, "dst_start": 9, "dst_end": 24}, "exclude": [12, 10]}
            # the all-valid case first
            yield dict({"M": M, "diti": False, "prefill": ["B;"], "stream": "valid", "method": method, "args": dict(base), "classes": {n: "valid" for n in names}}, **extra)
            # the ends of the representable range: exactly 32 characters, a single character, volume == max_volume
            for n in names:
                edge = []
                if INVALID_LIST.get(n) is INV_TEXT32:
                    edge = ["W" * 32, "µ" + "x" * 30 + " ", "q"]
                elif n == "volume":
                    edge = [M, 0.01]
                for val in edge:
                    args = dict(base)
                    args[n] = val
                    yield dict({"M": M, "diti": False, "prefill": ["B;"], "stream": "valid", "method": method, "args": args, "classes": {m: "valid" for m in names}}, **extra)
            for n in names:
                for bad in (inv_vol if n == "volume" else INVALID_LIST.get(n, [])):
                    args = dict(base)
                    args[n] = bad
                    classes = {m: "valid" for m in names}
                    classes[n] = "invalid"
                    yield dict({"M": M, "diti": False, "prefill": ["B;"], "stream": "one-invalid", "method": method, "args": args, "classes": classes}, **extra)
            if method == "reagent_distribution":
                for bad_excl in ([8], [25], [10, 0], [100, 12], [10.5], [12, 19.999], [23.25, 10]):
                    classes = {m: "valid" for m in names}
                    classes["exclude_wells"] = "invalid"
                    yield {"M": M, "diti": False, "prefill": [], "stream": "one-invalid", "method": method, "args": dict(base), "classes": classes, "range": extra["range"], "exclude": bad_excl}


ENUM_SPACE = "both ends of the representable range (32 characters, 1 character, volume = max_volume) and every listed invalid value (text with ';', >32 characters, negative/NaN/inf/oversized volumes, negative/fractional positions, invalid directions/tips/exclusions) x every field x every method (aspirate_well, dispense_well, reagent_distribution, aspirate, dispense, transfer, distribute) with all other fields valid and non-default, max_volume in {950, 200}"


def pick(draw, field, mode):
    """mode: 'valid' | 'invalid' | 'any' -> (value, class)"""
    valid, invalid, undet = field
    if mode == "valid":
        return draw(valid), "valid"
    if mode == "invalid":
        return draw(invalid), "invalid"
    k = draw(st.integers(0, 9))
    if k == 0 and not invalid.is_empty:
        return draw(invalid), "invalid"
    if k == 1 and not undet.is_empty:
        return draw(undet), "undet"
    return draw(valid), "valid"


@st.composite
def _case(draw, stratum):
    group, stream = stratum
    M = draw(st.sampled_from([950, 950, 200, 10000000]))
    diti = draw(st.sampled_from([False, False, True]))
    prefill = draw(st.sampled_from([[], ["B;"], ["C;x"], ["A;L;;;1;;5.00;;;;", "W1;"], ["F;", "B;"]]))
    case = {"M": M, "diti": diti, "prefill": prefill, "stream": stream}
    if group == "simple":
        method = draw(st.sampled_from(["comment", "wash", "decontaminate", "flush", "commit", "set_diti"]))
        case["method"] = method
        if method == "comment":
            line = st.lists(st.one_of(txt(14), txt(14), st.just(""), st.just("  "), st.just("\xa0")), min_size=0, max_size=5).map(lambda ls: "\n".join(ls))
            if stream == "valid":
                case["args"] = {"comment": draw(st.one_of(line, st.none()))}
            elif stream == "one-invalid":
                case["args"] = {"comment": draw(st.tuples(line, line).map(lambda ab: ab[0] + ";" + ab[1]))}
            else:
                case["args"] = {"comment": draw(st.one_of(line, st.tuples(line, line).map(lambda ab: ab[0] + ";" + ab[1])))}
        elif method == "wash":
            if stream == "valid":
                case["args"] = {"scheme": draw(st.integers(1, 4))}
            elif stream == "one-invalid":
                case["args"] = {"scheme": draw(st.sampled_from([0, 5, -1, 12, "1", None, 2.5, "flush"]))}
            else:
                case["args"] = {"scheme": draw(st.sampled_from([1, 2, 3, 4, 0, 5, 2.0, 4.0, "2", None, 2.5]))}
        elif method == "set_diti":
            case["args"] = {"diti_index": draw(st.integers(1, 20))}
            if stream == "valid":
                case["prefill"] = draw(st.sampled_from([[], ["B;"], ["A;L;;;1;;5.00;;;;", "B;"], ["S;2", "B;"]]))
            elif stream == "one-invalid":
                case["prefill"] = draw(st.sampled_from([["C;x"], ["A;L;;;1;;5.00;;;;"], ["B;", "W1;"], ["S;1"], ["F;"], ["B;", "D;L;;;1;;5.00;;;;"]]))
        else:
            case["args"] = {}
        return case
    if group == "well":
        case["method"] = draw(st.sampled_from(["aspirate_well", "dispense_well"]))
        fields = {"rack_label": F_LABEL, "position": F_POS, "volume": f_volume(M), "liquid_class": F_LC, "tip": F_TIP, "rack_id": F_ID, "tube_id": F_TUBE, "rack_type": F_ID, "forced_rack_type": F_FORCED}
    elif group == "rd":
        case["method"] = "reagent_distribution"
        fields = {
            "src_rack_label": F_LABEL,
            "dst_rack_label": F_LABEL,
            "volume": f_rd_volume(M),
            "diti_reuse": F_COUNT,
            "multi_disp": F_COUNT,
            "liquid_class": F_LC,
            "direction": F_DIR,
            "src_rack_id": F_ID,
            "src_rack_type": F_ID,
            "dst_rack_id": F_ID,
            "dst_rack_type": F_ID,
        }
    else:
        method = draw(st.sampled_from(["aspirate", "dispense", "transfer", "distribute"]))
        case["method"] = method
        M = case["M"] = min(M, 5000)
        if method == "distribute":
            fields = {"label": F_LABELTXT, "name_src": F_LABEL, "name_dst": F_LABEL, "volume": f_rd_volume(M), "diti_reuse": F_COUNT, "multi_disp": F_COUNT, "liquid_class": F_LC, "direction": F_DIR, "src_rack_id": F_ID, "src_rack_type": F_ID, "dst_rack_id": F_ID, "dst_rack_type": F_ID}
        else:
            fields = {"label": F_LABELTXT, "name_src": F_LABEL, "name_dst": F_LABEL, "volume": f_volume(M), "liquid_class": F_LC, "tip": F_TIP, "rack_id": F_ID, "tube_id": F_TUBE, "rack_type": F_ID, "forced_rack_type": F_FORCED}
    names = sorted(fields)
    bad_field = draw(st.sampled_from([n for n in names if not fields[n][1].is_empty])) if stream == "one-invalid" else None
    args, classes = {}, {}
    for n in names:
        mode = "valid" if stream in ("valid", "one-invalid") else "any"
        if n == bad_field:
            mode = "invalid"
        args[n], classes[n] = pick(draw, fields[n], mode)
    if case["method"] == "reagent_distribution" or case["method"] == "distribute":
        d0 = draw(st.integers(1, 90))
        d1 = d0 + draw(st.integers(0, 12))
        inside = draw(st.lists(st.integers(d0, d1), max_size=5, unique=True))
        case["range"] = {"src_start": draw(st.integers(1, 8)), "src_len": draw(st.integers(1, 8)), "dst_start": d0, "dst_end": d1}
        excl_mode = "valid"
        if stream == "mixed" and draw(st.integers(0, 5)) == 0 or (stream == "one-invalid" and draw(st.integers(0, 9)) == 0 and case["method"] == "reagent_distribution"):
            excl_mode = "invalid"
        if excl_mode == "invalid":
            inside = inside + [draw(st.sampled_from([d0 - 1, d1 + 1, d1 + 50, 0]))]
            if stream == "one-invalid" and bad_field is not None:
                # keep exactly one invalidity
                args[bad_field], classes[bad_field] = pick(draw, fields[bad_field], "valid")
            classes["exclude_wells"] = "invalid"
        else:
            classes["exclude_wells"] = "valid"
        case["exclude"] = draw(st.permutations(inside)) if inside else []
        if case["method"] == "reagent_distribution" and draw(st.integers(0, 3)) == 0 and excl_mode == "valid":
            case["exclude"] = None
    # NaN is not JSON: encode specials
    for n, v in list(args.items()):
        if isinstance(v, float) and (math.isnan(v) or math.isinf(v)):
            args[n] = {"special": repr(v)}
    case["args"] = args
    case["classes"] = classes
    return case


def strategy(tier, stratum):
    return _case(stratum)


def _val(v):
    if isinstance(v, dict) and "special" in v:
        return float(v["special"])
    return v


def _tip(v):
    import robotools

    def one(x):
        if x == "any":
            return robotools.Tip.Any
        if isinstance(x, str):
            return getattr(robotools.Tip, x)
        return x

    return [one(x) for x in v] if isinstance(v, list) else one(v)


def _tipmask(v):
    if v == "any":
        return ""
    items = v if isinstance(v, list) else [v]
    m = 0
    for x in items:
        n = int(x[1:]) if isinstance(x, str) else x
        m |= 1 << (n - 1)
    return str(m)


def _vol_ok(field, v):
    return re.match(r"^[0-9]+\.[0-9]{2}$", field) is not None and abs(float(field) - float(v)) <= 0.005 + 1e-9 * abs(float(v))


def _expect(classes):
    vals = set(classes.values())
    if "invalid" in vals:
        return "reject"
    if vals <= {"valid"}:
        return "accept"
    return "either"


def check_case(case) -> Obs:
    import robotools

    obs = Obs()
    method = case["method"]
    M = case["M"]
    obs.cls("method:" + method, "stream:" + case["stream"])
    # the high-level methods run on both devices (chosen by a function of the case content, so that it is a pure function of the case)
    fluent = method in ("aspirate", "dispense", "transfer", "distribute") and (case.get("device") == "fluent" or (case.get("device") is None and len(repr(sorted(case.get("args", {}).items(), key=lambda kv: kv[0]))) % 2 == 1))
    if method in ("aspirate", "dispense", "transfer", "distribute"):
        from vf.lab import evo_class

        wl = (robotools.FluentWorklist if fluent else evo_class(len(repr(case.get("args")))))(max_volume=M, diti_mode=case["diti"])
        obs.cls("device:" + ("fluent" if fluent else "evo"))
    else:
        # the record-level methods live in BaseWorklist; every class that inherits them has to behave the same
        classes_ = [robotools.BaseWorklist, robotools.EvoWorklist, robotools.Worklist, robotools.FluentWorklist]
        wl = classes_[(len(repr(case.get("args"))) + len(case["prefill"]) + int(case["diti"])) % 4](max_volume=M, diti_mode=case["diti"])
    wl.extend(case["prefill"])
    before = list(wl)
    args = {k: _val(v) for k, v in case.get("args", {}).items()}
    classes = dict(case.get("classes", {}))
    exc = None
    expect = None
    checker = None

    if method == "comment":
        text = args["comment"]
        expect = "reject" if (text and ";" in text) else "accept"
        call = lambda: wl.comment(text)  # noqa: E731

        def checker(new):
            want = [] if not text else ["C;" + ln.strip() for ln in text.split("\n") if ln.strip()]
            if new != want:
                obs.bad("C09/comment", f"comment({text!r}) appended {new}, expected {want}")

    elif method == "wash":
        scheme = args["scheme"]
        is_int = isinstance(scheme, int) and not isinstance(scheme, bool)
        if case["diti"]:
            expect = "accept" if (is_int and scheme in (1, 2, 3, 4)) else "either"
        elif is_int:
            expect = "accept" if scheme in (1, 2, 3, 4) else "reject"
        elif isinstance(scheme, float) and scheme in (1.0, 2.0, 3.0, 4.0):
            expect = "either"
        else:
            expect = "reject"
        call = lambda: wl.wash(scheme)  # noqa: E731

        def checker(new):
            want = ["W;"] if case["diti"] else [f"W{int(scheme)};"]
            if new != want:
                obs.bad("C09/wash", f"wash({scheme!r}) (diti_mode={case['diti']}) appended {new}, expected {want}")

    elif method == "decontaminate":
        expect = "reject" if case["diti"] else "accept"
        call = wl.decontaminate
        checker = lambda new: new == ["WD;"] or obs.bad("C09/decontaminate", f"appended {new}")  # noqa: E731
    elif method == "flush":
        expect = "accept"
        call = wl.flush
        checker = lambda new: new == ["F;"] or obs.bad("C09/flush", f"appended {new}")  # noqa: E731
    elif method == "commit":
        expect = "accept"
        call = wl.commit
        checker = lambda new: new == ["B;"] or obs.bad("C09/commit", f"appended {new}")  # noqa: E731
    elif method == "set_diti":
        idx = args["diti_index"]
        place_ok = len(before) == 0 or before[-1] == "B;"
        idx_ok = isinstance(idx, int) and idx >= 1
        expect = "reject" if not place_ok else ("accept" if idx_ok else "either")
        call = lambda: wl.set_diti(idx)  # noqa: E731

        def checker(new):
            if len(new) != 1 or not re.match(r"^S;[0-9]+$", new[0]) or int(new[0][2:]) != idx:
                obs.bad("C09/set_diti", f"set_diti({idx!r}) appended {new}")

    elif method in ("aspirate_well", "dispense_well"):
        expect = _expect(classes)
        kw = {k: args[k] for k in ("liquid_class", "rack_id", "tube_id", "rack_type", "forced_rack_type")}
        call = lambda: getattr(wl, method)(args["rack_label"], args["position"], args["volume"], tip=_tip(args["tip"]), **kw)  # noqa: E731

        def checker(new):
            if len(new) != 1:
                obs.bad("C09/record-count", f"{method} appended {len(new)} records: {new}")
                return
            try:
                rec = gwl.parse_record(new[0])
            except gwl.GwlError as e:
                obs.bad("C09/malformed", f"{method}({args}) -> {new[0]!r}: {e}")
                return
            f = rec.f
            want = {"type": "A" if method == "aspirate_well" else "D", "rack_label": args["rack_label"], "rack_id": args["rack_id"], "rack_type": args["rack_type"], "position": str(args["position"]) if classes["position"] == "valid" else None, "tube_id": args["tube_id"], "liquid_class": args["liquid_class"], "tip_type": "", "forced_rack_type": args["forced_rack_type"]}
            for k_, v_ in want.items():
                if v_ is not None and f[k_] != v_:
                    obs.bad("C09/field", f"{method}: field {k_} is {f[k_]!r}, argument was {v_!r} (record {new[0]!r})")
            if classes["position"] != "valid" and float(f["position"]) != float(args["position"]):
                obs.bad("C09/field", f"{method}: position field {f['position']!r} for argument {args['position']!r}")
            if not _vol_ok(f["volume"], args["volume"]):
                obs.bad("C09/volume-field", f"{method}: volume field {f['volume']!r} for volume {args['volume']!r}")
            if classes["tip"] == "valid" and f["tip_mask"] != _tipmask(args["tip"]):
                obs.bad("C09/field", f"{method}: tip mask {f['tip_mask']!r} for tip {args['tip']!r}")

    elif method == "reagent_distribution":
        expect = _expect(classes)
        rng = case["range"]
        s0, s1 = rng["src_start"], rng["src_start"] + rng["src_len"] - 1
        d0, d1 = rng["dst_start"], rng["dst_end"]
        excl = case["exclude"]
        kw = {k: args[k] for k in ("volume", "diti_reuse", "multi_disp", "liquid_class", "direction", "src_rack_id", "src_rack_type", "dst_rack_id", "dst_rack_type")}
        # the exclusion list is an Iterable[int]: list, tuple, set, a one-shot iterator, a numpy array
        form = (len(excl or []) + d0) % 5
        if excl:
            import numpy as _np

            excl_arg = [list(excl), tuple(excl), set(excl), iter(list(excl)), _np.array(excl)][form]
            obs.cls("exclude-as:" + ["list", "tuple", "set", "iterator", "ndarray"][form])
        else:
            excl_arg = excl
        call = lambda: wl.reagent_distribution(args["src_rack_label"], s0, s1, args["dst_rack_label"], d0, d1, exclude_wells=excl_arg, **kw)  # noqa: E731

        def checker(new):
            _check_R(obs, new, M, args["src_rack_label"], args["dst_rack_label"], s0, s1, d0, d1, excl or [], args, "reagent_distribution")

    else:
        # pass-through via the high-level methods
        expect = _expect(classes)
        if method == "aspirate" and classes["name_dst"] == "invalid" or method == "dispense" and classes["name_src"] == "invalid":
            classes["name_dst" if method == "aspirate" else "name_src"] = "valid"  # the other labware is not involved
            expect = _expect(classes)
        if method != "distribute" and isinstance(args["volume"], (int, float)) and args["volume"] == 0 and expect == "reject" and classes.get("label") != "invalid":
            expect = "either"  # a zero volume emits no record, so there is nothing that could not be represented
        S = robotools.Trough(args["name_src"], 4, 2, min_volume=0, max_volume=1e9, initial_volumes=1e8)
        D = robotools.Labware(args["name_dst"], 8, 12, min_volume=0, max_volume=1e9, initial_volumes=1e3)
        if method == "distribute":
            rng = case["range"]
            d0, d1 = rng["dst_start"], rng["dst_end"]
            if d1 > 96:
                d0, d1 = d0 - (d1 - 96), 96
            excl = sorted(p for p in set(case["exclude"] or []) if d0 <= p <= d1)
            in_range = [p for p in range(d0, d1 + 1) if p not in excl]
            if classes.get("exclude_wells") == "invalid" or not in_range:
                excl, in_range = [], list(range(d0, d1 + 1))
                classes["exclude_wells"] = "valid"
                expect = _expect(classes)
            # first and last well of the range must be used, otherwise the emitted range shrinks
            in_range = sorted(set(in_range) | {d0, d1})
            excl = [p for p in range(d0, d1 + 1) if p not in in_range]
            wells = [f"{'ABCDEFGH'[(p - 1) % 8]}{(p - 1) // 8 + 1:02d}" for p in in_range]
            kw = {k: args[k] for k in ("diti_reuse", "multi_disp", "liquid_class", "direction", "src_rack_id", "src_rack_type", "dst_rack_id", "dst_rack_type")}
            call = lambda: wl.distribute(S, 1, D, wells, volume=args["volume"], label=args["label"] if args["label"] is not None else "", **kw)  # noqa: E731

            def checker(new):
                new = _strip_label(obs, new, args["label"], "distribute")
                if new is not None:
                    _check_R(obs, new, M, args["name_src"], args["name_dst"], 5, 8, d0, d1, excl, args, "distribute")

        else:
            kw = {k: args[k] for k in ("liquid_class", "rack_id", "tube_id", "rack_type", "forced_rack_type")}
            kw["tip"] = _tip(args["tip"])
            v = args["volume"]
            if method == "aspirate":
                call = lambda: wl.aspirate(S, ["B02", "A01"], v, label=args["label"], **kw)  # noqa: E731
                want = [("A", args["name_src"], 2 if fluent else 6), ("A", args["name_src"], 1)]
            elif method == "dispense":
                call = lambda: wl.dispense(D, ["C02", "A12"], v, label=args["label"], **kw)  # noqa: E731
                want = [("D", args["name_dst"], 11), ("D", args["name_dst"], 89)]
            else:
                wl.auto_split = False
                call = lambda: wl.transfer(S, "D01", D, "H12", v, wash_scheme="reuse", label=args["label"], **kw)  # noqa: E731
                want = [("A", args["name_src"], 1 if fluent else 4), ("D", args["name_dst"], 96)]

            def checker(new):
                new = _strip_label(obs, new, args["label"], method)
                if new is None:
                    return
                if isinstance(v, (int, float)) and v == 0:
                    if new:
                        obs.bad("C09/zero-volume-record", f"{method} with volume 0 appended {new}")
                    return
                if len(new) != len(want):
                    obs.bad("C09/record-count", f"{method} appended {new}")
                    return
                parsed = []
                for rec_text in new:
                    try:
                        parsed.append((rec_text, gwl.parse_record(rec_text).f))
                    except gwl.GwlError as e:
                        obs.bad("C09/malformed", f"{method}(kwargs {kw}) -> {rec_text!r}: {e}")
                        return
                # pair every expected (type, rack, position) with its record; the order within one call is not prescribed
                ordered = []
                for typ, name, pos in want:
                    hit = next((pr for pr in parsed if pr[1]["type"] == typ and pr[1]["position"] == str(pos)), None)
                    if hit is None:
                        obs.bad("C09/field", f"{method}: no {typ} record for position {pos} among {new}")
                        return
                    parsed.remove(hit)
                    ordered.append(hit)
                for (rec_text, f), (typ, name, pos) in zip(ordered, want):
                    exp = {"type": typ, "rack_label": name, "position": str(pos), "rack_id": args["rack_id"], "rack_type": args["rack_type"], "tube_id": args["tube_id"], "liquid_class": args["liquid_class"], "forced_rack_type": args["forced_rack_type"], "tip_type": ""}
                    for k_, v_ in exp.items():
                        if f[k_] != v_:
                            obs.bad("C09/field", f"{method}: field {k_} of {rec_text!r} is {f[k_]!r}, expected {v_!r}")
                    if not _vol_ok(f["volume"], v):
                        obs.bad("C09/volume-field", f"{method}: volume field {f['volume']!r} for volume {v!r}")
                    if classes["tip"] == "valid" and f["tip_mask"] != _tipmask(args["tip"]):
                        obs.bad("C09/field", f"{method}: tip mask {f['tip_mask']!r} for tip {args['tip']!r}")

    try:
        call()
    except Exception as e:  # noqa
        exc = e
    new = list(wl[len(before) :])
    if list(wl[: len(before)]) != before:
        obs.bad("C09/earlier-records-changed", f"{method} changed earlier records: {before} -> {list(wl[:len(before)])}")
    n_invalid = sum(1 for c in classes.values() if c == "invalid")
    if exc is not None:
        obs.cls("rejected", "exc:" + type(exc).__name__)
        if new:
            label = args.get("label") if method in ("aspirate", "dispense", "transfer", "distribute") else None
            label_lines = [] if not label or ";" in label else ["C;" + ln.strip() for ln in label.split("\n") if ln.strip()]
            if label_lines and new == label_lines:
                # open finding F20: the label's comment is written before the keyword arguments are validated
                obs.bad("C09/F20-label-comment-before-validation", f"{method}(label={label!r}, ...) raised {type(exc).__name__} after appending the label comment {new}")
            else:
                obs.bad("C09/appended-on-reject", f"{method}({args}) raised {type(exc).__name__} but appended {new}")
        if expect == "accept":
            obs.bad("C09/valid-rejected", f"{method}({args}, prefill={before}, diti={case['diti']}, max_volume={M}) raised {type(exc).__name__}: {exc}")
        obs.nontrivial = n_invalid == 1 or (expect == "reject" and not classes)
    else:
        obs.cls("accepted")
        if expect == "reject":
            bad = [k for k, c in classes.items() if c == "invalid"]
            obs.bad("C09/invalid-accepted", f"{method}({args}, exclude={case.get('exclude')}, prefill={before}, diti={case['diti']}, max_volume={M}) was accepted (invalid: {bad}); appended {new}")
        else:
            checker(new)
        nondefault = sum(1 for k, v in args.items() if v not in ("", 1, "any", "left_to_right", None))
        obs.nontrivial = nondefault >= 3 or method in ("comment", "wash", "set_diti")
    if expect:
        obs.cls("expect:" + expect)
    return obs


def _strip_label(obs, new, label, method):
    """The label of a high-level call is written as comment line(s) before the records of the call."""
    want = [] if not label else ["C;" + ln.strip() for ln in label.split("\n") if ln.strip()]
    if new[: len(want)] != want or any(r.startswith("C;") for r in new[len(want) :]):
        obs.bad("C09/label-comment", f"{method}(label={label!r}) appended {new[:len(want) + 2]}, expected the comment lines {want} first")
        return None
    return new[len(want) :]


def _check_R(obs, new, M, src, dst, s0, s1, d0, d1, excl, args, method):
    if len(new) != 1:
        obs.bad("C09/record-count", f"{method} appended {len(new)} records: {new}")
        return
    try:
        rec = gwl.parse_record(new[0])
    except gwl.GwlError as e:
        obs.bad("C09/malformed", f"{method}({args}) -> {new[0]!r}: {e}")
        return
    f = rec.f
    want = {
        "src_label": src,
        "src_id": args["src_rack_id"],
        "src_type": args["src_rack_type"],
        "src_start": str(s0),
        "src_end": str(s1),
        "dst_label": dst,
        "dst_id": args["dst_rack_id"],
        "dst_type": args["dst_rack_type"],
        "dst_start": str(d0),
        "dst_end": str(d1),
        "liquid_class": args["liquid_class"],
        "diti_reuse": str(args["diti_reuse"]),
        "direction": "0" if args["direction"] == "left_to_right" else "1",
    }
    for k_, v_ in want.items():
        if f[k_] != v_:
            obs.bad("C09/field", f"{method}: field {k_} is {f[k_]!r}, expected {v_!r} (record {new[0]!r})")
    v = args["volume"]
    if abs(float(f["volume"]) - float(v)) > 0.005:
        obs.bad("C09/volume-field", f"{method}: R volume {f['volume']!r} for volume {v!r}")
    if f["exclude"] != sorted(set(excl)) and f["exclude"] != sorted(excl):
        obs.bad("C09/exclusions", f"{method}: exclusions {f['exclude']} for excluded wells {excl}")
    md = args["multi_disp"]
    got = int(f["multi_disp"])
    if v > 0:
        fv, fM = Fraction(float(v)), Fraction(M)
        if md * fv <= fM:
            ok = got == md
        else:
            ok = got * fv <= fM * (1 + Fraction(1, 10**12)) and (got + 1) * fv > fM * (1 - Fraction(1, 10**12)) and got < md
        if not ok:
            obs.bad("C09/multi-disp", f"{method}: multi_disp {md} with volume {v} and max_volume {M} -> {got}")


def classes_from_values(case):
    """Validity classes computed from the argument values alone (used by the fuzz campaign)."""
    M = case["M"]
    out = {}

    def text32(v):
        return "invalid" if (";" in v or len(v) > 32) else "valid"

    for k, v in case["args"].items():
        v = _val(v)
        if k in ("rack_label", "src_rack_label", "dst_rack_label"):
            out[k] = "invalid" if (";" in v or len(v) > 32) else ("valid" if len(v) >= 1 else "undet")
        elif k in ("rack_id", "rack_type", "src_rack_id", "src_rack_type", "dst_rack_id", "dst_rack_type"):
            out[k] = text32(v)
        elif k in ("liquid_class", "tube_id"):
            out[k] = "invalid" if ";" in v else "valid"
        elif k == "forced_rack_type":
            out[k] = "invalid" if ";" in v else ("valid" if len(v) <= 32 else "undet")
        elif k == "position":
            if isinstance(v, int):
                out[k] = "valid" if v >= 1 else ("undet" if v == 0 else "invalid")
            else:
                out[k] = "invalid" if v != int(v) or v < 0 else "undet"
        elif k == "volume":
            if isinstance(v, float) and (math.isnan(v) or math.isinf(v)):
                out[k] = "invalid"
            elif v < 0 or v > M or v > 7158278:
                out[k] = "invalid"
            elif case["method"] == "reagent_distribution" and v < 0.01:
                out[k] = "undet"
            else:
                out[k] = "valid"
        elif k == "tip":
            items = v if isinstance(v, list) else [v]
            ok = all(x == "any" and not isinstance(v, list) or (isinstance(x, str) and x.startswith("T")) or (isinstance(x, int) and 1 <= x <= 8) for x in items)
            out[k] = "valid" if ok else "invalid"
        elif k == "direction":
            out[k] = "valid" if v in ("left_to_right", "right_to_left") else "invalid"
        else:
            out[k] = "valid"
    if case["method"] == "reagent_distribution":
        rng = case["range"]
        ex = case.get("exclude") or []
        out["exclude_wells"] = "valid" if all(isinstance(e, int) and rng["dst_start"] <= e <= rng["dst_end"] for e in ex) else "invalid"
    return out


def extra_campaign(tier, seed, shard, nshards, st, known):
    from vf.fuzzrun import campaign

    campaign(PID, tier, seed, shard, nshards, st, known, runs=20000, seeds_corpus=[b"\x00\x00\x05plate\x01\x10\x00\x02LC\x01", b"\x00\x02\x03src\x03dst\x00\x64\x00\x01"])
