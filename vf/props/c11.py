"""C11 - the labware history is append-only, condensed per operation, and truthful."""
import re

import numpy as np
from hypothesis import strategies as st

from vf.core import Obs
from vf.lab import lab_spec
from vf.prog import ops_list, World, execute, expect_sequential, expect_transfer, flat_pairs, op_direct, op_distribute, op_transfer, resolve, trough_indices, vs_ok

PID = "C11"
RULE = (
    "case = 1..3 small labware + device + worklist max_volume (small, so that volumes split) + auto_split on/off + a program of 1..14 "
    "operations mixing add / remove / aspirate / dispense / transfer (1..6 triples, zero volumes, all-zero "
    "transfers, splits, same-labware, label present / absent / empty) / distribute (also volume 0 and source = "
    "destination). After every operation, for every labware: prefix preservation, number of new entries, newest "
    "entry == volumes, label (+ large-volume note with the number of extra A/D pairs counted from the records), "
    "snapshot immutability of every array ever obtained, and the printable report. Non-trivial = >= 3 executed "
    "operations including a transfer that split or contained a zero volume; distinct by canonical JSON."
)
ASSUMPTIONS = [
    "labels 'first' and 'last' (keywords of condense_log) are not generated; an absent label is None or ''",
    "an operation that moves nothing may add 0 or 1 entries per participating labware",
    "the number of extra pairs of a split = (A/D pairs emitted by the call) - (triples with volume > 0)",
    "arrays returned by `history` are not mutated by the harness",
]
BUDGET = {"quick": (4, 300), "thorough": (16, 4000)}
KNOWN_KINDS = {}
STRATA = ["transfer", "distribute", "direct", "mixed"]
REQUIRED_CLASSES = ["op:transfer", "op:distribute", "op:add", "op:remove", "op:aspirate", "op:dispense", "split", "all-zero-transfer", "zero-in-transfer", "same-labware-transfer", "distribute-src=dst", "label:absent", "label:present", "auto_split:on", "auto_split:off", "refused-transfer-in-between", "replica-labware"]


@st.composite
def _case(draw, focus, tier="quick"):
    n = draw(st.integers(1, 3))
    names = ["Alpha 70%", "Beta plate ", " Gamma_3"]
    labs = []
    for i in range(n):
        kind = draw(st.sampled_from(["plate", "trough"])) if i == 0 else draw(st.sampled_from(["plate", "plate", "trough"]))
        if i == 0 and focus == "distribute":
            kind = "trough"
        labs.append(draw(lab_spec(names[i], kind=kind, max_rows=4, max_cols=4, regime="roomy", grid=True, allow_names=False, pos=(10 + i, 1 + i), filled=True if i == 0 else None)))
    if n >= 2 and draw(st.integers(0, 2)) == 0:
        # a replica: a second, distinct labware object with the same name and geometry (histories are kept per object;
        # records are not interpreted in this check, so the shared rack label does no harm)
        import copy

        labs[1] = dict(copy.deepcopy(labs[0]), pos=[11, 2])
        # ... whose first well holds 2 uL more, so that moving 1 uL over makes the two objects equal in every respect
        if labs[1]["kind"] == "trough":
            labs[1]["init"][0] = labs[1]["init"][0] + 2.0
        else:
            labs[1]["init"][0][0] = labs[1]["init"][0][0] + 2.0
    M = draw(st.sampled_from([5, 12.5, 50, 950, 33.3, 1.88, 900.3, 0.7]))
    zeroish = st.one_of(st.just(0), st.just(0), vs_ok(0.01))
    # exact multiples of a non-dyadic max_volume: the float quotient may land a hair above the integer
    vs = st.one_of(vs_ok(0.01), st.just(0), st.integers(1, 40).map(float), st.integers(1, 4).map(lambda k: round(k * M, 2)))
    t = st.one_of(op_transfer(vs, max_n=6), op_transfer(vs, max_n=6), op_transfer(vs, max_n=3), op_transfer(zeroish, max_n=3), op_transfer(st.just(0), max_n=3))
    d = op_distribute(st.one_of(vs, st.just(0)), max_n=4)
    direct = op_direct(vs, max_n=4)
    # a transfer that is refused at its second triple (after one completed pair): the caller catches the error and goes on
    refused = op_transfer(st.just(1.0), max_n=3).map(lambda o: dict(o, refused=True))
    anyop = st.one_of(t, d, direct, direct, refused)
    fop = {"transfer": t, "distribute": d, "direct": direct, "mixed": anyop}[focus]
    ops = draw(ops_list(st.one_of(fop, anyop), 1, 14 if tier == "quick" else 25))
    if len(labs) >= 2 and labs[0]["name"] == labs[1]["name"]:
        # levelling the replica with its original: afterwards the two objects are in the same state, and still two objects
        first = {"op": "transfer", "src": 1, "dst": 0, "sw": {"t": "scalar", "w": [0, 0]}, "dw": {"t": "scalar", "w": [0, 0]}, "vols": {"t": "scalar", "v": 1.0}, "wash": 1, "pb": "auto", "label": "level with the replica", "fail_side": "src", "kw": {}, "ints": False}
        ops = [first] + ops
    return {"labs": labs, "device": draw(st.sampled_from(["evo", "fluent"])), "M": M, "auto_split": draw(st.sampled_from([True, True, False])), "ops": ops}


def strategy(tier, stratum):
    return _case(stratum, tier)


def _absent(label):
    return label is None or label == ""


def check_case(case) -> Obs:
    obs = Obs()
    obs.units = 0
    specs = case["labs"]
    M = case["M"]
    auto_split = case.get("auto_split", True)
    world = World(specs, device=case["device"], grid=0.01, wl_kwargs={"max_volume": M, "auto_split": auto_split})
    obs.cls("auto_split:" + ("on" if auto_split else "off"))
    if len({s_["name"] for s_ in case["labs"]}) < len(case["labs"]):
        obs.cls("replica-labware")
    wl = world.wl
    troughs = trough_indices(specs)
    snapshots = []  # (description, live array object, deep copy)
    prev = []
    for i, lw in enumerate(world.labs):
        h = lw.history
        prev.append([(lab, arr, arr.copy()) for lab, arr in h])
        if len(h) != 1 or h[0][0] != "initial" or not np.array_equal(h[0][1], lw.volumes):
            obs.bad("C11/initial-history", f"{specs[i]['name']}: history after construction is {[(a, b.tolist()) for a, b in h]}")
        v = lw.volumes
        snapshots.append((f"volumes of {specs[i]['name']} after construction", v, v.copy()))
    executed = 0
    interesting = False
    for k, op in enumerate(case["ops"]):
        op = dict(op)
        kind = op["op"]
        if kind == "distribute":
            if not troughs:
                continue
            op["src"] = troughs[op["src"] % len(troughs)]
            if op.get("col", 0) % 3 == 0:
                op["dst"] = op["src"]  # source = destination
            op["cap"] = M
        if kind in ("aspirate", "dispense"):
            op["cap"] = M
        if kind == "transfer":
            op["cap"] = 4 * M if auto_split else M
        if op.get("refused"):
            op["vols"] = {"t": "list", "v": [{"f": 0.1}, {"over": 5.0}, {"f": 0.1}]}
            op["sw"] = {"t": "list", "w": [[0, 0], [1, 0], [0, 1]]}
            op["dw"] = {"t": "list", "w": [[0, 0], [0, 0], [0, 0]]}
            op["pb"] = "source"
        conc = resolve(world, op)
        if op.get("refused"):
            step = execute(world, conc)
            obs.units += 1
            if step.exc is not None:
                obs.cls("refused-transfer-in-between")
            # whatever a refused operation logged: earlier entries must be intact
            for i, lw in enumerate(world.labs):
                h = lw.history
                old = prev[i]
                if len(h) < len(old) or any(h[j][0] != lab or not np.array_equal(h[j][1], copy) for j, (lab, arr, copy) in enumerate(old)):
                    obs.bad("C11/prefix-altered", f"op {k}: a transfer that {'raised ' + type(step.exc).__name__ if step.exc else 'returned'} altered earlier history entries of {specs[i]['name']}")
                prev[i] = [(lab, arr, arr.copy()) for lab, arr in h]
            if obs.violations:
                break
            continue
        if kind == "distribute" and (not conc["dflat"] or conc["vol"] > M):
            continue
        if kind == "transfer":
            if expect_transfer(world, conc) != "accept":
                continue
        elif expect_sequential(world, flat_pairs(world, conc))[0] != "accept":
            continue
        step = execute(world, conc)
        obs.units += 1
        if step.exc is not None:
            obs.cls("ended-by-" + type(step.exc).__name__)
            break
        executed += 1
        obs.cls("op:" + kind)
        label = conc.get("label")
        obs.cls("label:absent" if _absent(label) else "label:present")
        new_records = list(wl[step.rec0 : step.rec1])
        n_pairs = sum(1 for r in new_records if r.startswith("A;"))
        # ---- participants and whether liquid moved
        if kind in ("add", "remove", "aspirate", "dispense"):
            participants = {conc["lw"]}
            moved = True  # direct calls always log exactly one entry
            exact_one = True
            extra = 0
        elif kind == "transfer":
            participants = {conc["src"], conc["dst"]}
            positive = sum(1 for v in conc["flatvols"] if v > 0)
            moved = positive > 0
            exact_one = moved
            extra = n_pairs - positive
            if positive == 0:
                obs.cls("all-zero-transfer")
                interesting = True
            elif any(v == 0 for v in conc["flatvols"]):
                obs.cls("zero-in-transfer")
                interesting = True
            if extra > 0:
                obs.cls("split")
                interesting = True
            if conc["src"] == conc["dst"]:
                obs.cls("same-labware-transfer")
        else:
            participants = {conc["src"], conc["dst"]}
            moved = conc["vol"] > 0
            exact_one = moved
            extra = 0
            if conc["src"] == conc["dst"]:
                obs.cls("distribute-src=dst")
            if not moved:
                obs.cls("zero-distribute")
        desc = f"op {k} {kind} label={label!r} " + str({a: conc[a] for a in conc if a in ("pairs", "flatvols", "dflat", "vol", "wells", "vols")})
        for i, lw in enumerate(world.labs):
            name = specs[i]["name"]
            h = lw.history
            old = prev[i]
            # prefix preservation
            if len(h) < len(old):
                obs.bad("C11/history-shrunk", f"{desc}: history of {name} shrank from {len(old)} to {len(h)} entries")
                break
            for j, (lab, arr, copy) in enumerate(old):
                if h[j][0] != lab or not np.array_equal(h[j][1], copy):
                    obs.bad("C11/prefix-altered", f"{desc}: entry {j} of {name} changed from ({lab!r}, {copy.tolist()}) to ({h[j][0]!r}, {h[j][1].tolist()})")
                    break
            if obs.violations:
                break
            added = len(h) - len(old)
            if i in participants:
                if exact_one and added != 1:
                    obs.bad("C11/entry-count", f"{desc}: {name} got {added} new history entries, expected exactly 1")
                elif not exact_one and added not in (0, 1):
                    obs.bad("C11/entry-count", f"{desc}: {name} got {added} new history entries for an operation that moved nothing (0 or 1 expected)")
            elif added != 0:
                obs.bad("C11/entry-count", f"{desc}: uninvolved labware {name} got {added} new history entries")
            # newest entry is the current state
            vols = lw.volumes
            if not np.array_equal(h[-1][1], vols):
                obs.bad("C11/newest-entry", f"{desc}: newest history entry of {name} {h[-1][1].tolist()} != volumes {vols.tolist()}")
            # label of the new entry
            if i in participants and added == 1:
                got = h[-1][0]
                if extra <= 0:
                    if not ((_absent(label) and _absent(got)) or got == label):
                        obs.bad("C11/label", f"{desc}: new entry of {name} is labelled {got!r}")
                else:
                    text = got or ""
                    ok = True
                    rest = text
                    if not _absent(label):
                        ok = text.startswith(label)
                        rest = text[len(label) :]
                    m = re.search(r"\d+", rest)
                    if not ok or m is None or int(m.group()) != extra:
                        obs.bad("C11/lvh-note", f"{desc}: {extra} extra pipetting pairs were emitted ({n_pairs} pairs), label of {name} is {got!r}")
            # report
            rep = lw.report
            if not rep.startswith(name):
                obs.bad("C11/report", f"report of {name} does not start with the name")
            pos = len(name)
            for lab, arr in h:
                for token in ([lab] if lab else []) + [str(np.round(arr, decimals=1))]:
                    at = rep.find(token, pos)
                    if at < 0:
                        obs.bad("C11/report", f"{desc}: report of {name} lacks {token[:60]!r} (in order)")
                        break
                    pos = at + len(token)
                if obs.violations:
                    break
            if rep.count("[[") != len(h):
                obs.bad("C11/report", f"{desc}: report of {name} shows {rep.count('[[')} arrays for {len(h)} entries")
            # remember
            prev[i] = [(lab, arr, arr.copy()) for lab, arr in h]
            snapshots.append((f"volumes of {name} after op {k}", vols, vols.copy()))
        if obs.violations:
            break
        # snapshots never change
        for what, live, copy in snapshots:
            if not np.array_equal(live, copy):
                obs.bad("C11/snapshot-mutated", f"{desc}: array '{what}' changed from {copy.tolist()} to {live.tolist()}")
                break
        for i in range(len(world.labs)):
            for j, (lab, arr, copy) in enumerate(prev[i]):
                if not np.array_equal(arr, copy):
                    obs.bad("C11/snapshot-mutated", f"history entry {j} of {specs[i]['name']} was mutated in place")
                    break
        if obs.violations:
            break
    _msg = world.templates_changed()
    if _msg:
        obs.bad("C11/untouched-object-changed", _msg)
    if world.templates:
        obs.cls("cloned-labware")
    obs.nontrivial = executed >= 3 and interesting
    return obs
