"""C03 - a worklist never contains a rejected or oversized pipetting step, even on abort."""
import os
import shutil

import numpy as np
import tempfile

from hypothesis import strategies as st

from vf import gwl
from vf.core import Obs
from vf.lab import lab_spec
from vf.prog import ops_list, World, execute, expect_sequential, expect_transfer, flat_pairs, op_direct, op_distribute, op_evo, op_transfer, resolve, trough_indices, vs_bad, vs_ok

PID = "C03"
RULE = (
    "case = 1..3 labware (all numbers multiples of 0.01 so that the replay is exact) + device + worklist max_volume + "
    "auto_split flag + 0..8 ordinary worklist operations (aspirate, dispense, transfer, distribute, evo_aspirate, "
    "evo_dispense) + one final operation constructed to fail at a chosen sub-step: underflow / overflow (a refused "
    "volume at the first, a middle or the last position), a step above max_volume (auto_split off, or raw aspirate/"
    "dispense/script command/distribute), or an argument that is only detected late (wash scheme 7, tip 9, 33-character "
    "rack_id, ';' in liquid_class, invalid direction, arm 2). Everything runs inside `with Worklist(path)`; the records "
    "are replayed by the independent interpreter after every operation and after the failure, and the file written by "
    "__exit__ is decoded. Non-trivial = the final operation raised and the worklist already held >= 1 liquid-moving "
    "record; distinct by canonical JSON."
)
ASSUMPTIONS = [
    "record semantics = vf/gwl.py; replay in exact arithmetic from the specification's initial volumes",
    "only worklist methods touch the labware (the property replays records from the initial contents)",
    "an operation that fails earlier than intended, or not at all, is still checked (the invariants hold for every prefix)",
]
BUDGET = {"quick": (4, 450), "thorough": (16, 3000)}
KNOWN_KINDS = {}
REQUIRED_CLASSES = [
    "fail:limit:raised", "fail:oversize:raised", "fail:late:raised",
    "raised:VolumeUnderflowError", "raised:VolumeOverflowError", "raised:InvalidOperationError", "raised:ValueError",
    "failop:transfer", "failop:distribute", "failop:aspirate", "failop:dispense", "failop:evo_aspirate", "failop:evo_dispense",
    "k>0",
]
MS = [7, 50, 200, 950, 0.5, 33.3]


def _with_bad(vols, vsbad, pos):
    """Places a refusing volume spec at one position of a volume selection."""
    vols = dict(vols)
    if vols["t"] == "scalar":
        return {"t": "scalar", "v": vsbad}
    v = list(vols["v"])
    v[pos % len(v)] = vsbad
    vols["v"] = v
    return vols


FAIL_OPS = ["aspirate", "dispense", "transfer", "distribute", "evo_aspirate", "evo_dispense"]
STRATA = [[op, mode] for op in FAIL_OPS for mode in ("limit", "oversize", "late")]


@st.composite
def _case(draw, stratum):
    n = draw(st.integers(1, 3))
    names = ["Alpha 70%", "Beta plate ", " Gamma_3"]
    labs = []
    for i in range(n):
        kind = draw(st.sampled_from(["plate", "trough"])) if i == 0 else draw(st.sampled_from(["plate", "plate", "trough"]))
        regime = draw(st.sampled_from(["roomy", "tight", "tight", "large"]))
        if stratum[1] == "oversize":
            regime = "roomy"  # the labware must be able to supply / take an oversized step, otherwise the volume check refuses first
        if i == 0 and stratum[0] == "distribute":
            kind, regime = "trough", draw(st.sampled_from(["roomy", "roomy", "tight"]))  # a supply trough
        labs.append(draw(lab_spec(names[i], kind=kind, max_rows=8, max_cols=8 if kind == "plate" else 4, regime=regime, grid=True, allow_names=False, pos=(10 + i, 1 + i), filled=True if (i == 0 or stratum[1] == "oversize") else None, min_cols=2 if (i == 0 and stratum[0] == "distribute") else 1)))
    vs = vs_ok(0.01)
    # "hint": draw from a well that was empty at the start and has been filled by a raw dispense (its composition is
    # unknown to the tracking), and deliver into one fixed well - a multi-step history
    hinted = st.tuples(op_transfer(vs, max_n=2), st.integers(0, 5)).map(lambda x: dict(x[0], hint=x[1]))
    to_empty = st.tuples(op_direct(vs, kinds=("dispense",), max_n=2), st.integers(0, 7)).map(lambda x: dict(x[0], to_empty=x[1]))
    normal = st.one_of(op_direct(vs, kinds=("aspirate", "dispense")), to_empty, op_transfer(vs), hinted, hinted, op_distribute(vs), op_evo(vs))
    ops = draw(ops_list(normal, 0, 8))
    fop, mode = stratum
    fail = dict(
        draw(
            {
                "aspirate": op_direct(vs, kinds=("aspirate",)),
                "dispense": op_direct(vs, kinds=("dispense",)),
                "transfer": op_transfer(vs),
                "distribute": op_distribute(vs),
                "evo_aspirate": st.one_of(op_evo(vs, min_tips=2), op_evo(vs)).map(lambda o: dict(o, op="evo_aspirate")),
                "evo_dispense": st.one_of(op_evo(vs, min_tips=2), op_evo(vs)).map(lambda o: dict(o, op="evo_dispense")),
            }[fop]
        )
    )
    fail["mode"] = mode
    fail["vols_container"] = draw(st.sampled_from(["list", "list", "tuple", "ndarray"]))
    fail["bad"] = draw(vs_bad())
    fail["bad_pos"] = draw(st.integers(0, 5))
    fail["late"] = draw(st.sampled_from(["wash7", "tip9", "rack_id33", "lc;", "direction", "arm2", "washNone0"]))
    fail["over_by"] = draw(st.sampled_from([0.01, 0.5, 1.0, 3.0]))
    auto_split = draw(st.booleans()) if mode != "oversize" else draw(st.sampled_from([False, False, True]))
    device = "evo" if fop.startswith("evo_") else draw(st.sampled_from(["evo", "fluent"]))
    return {"labs": labs, "device": device, "M": draw(st.sampled_from(MS)), "auto_split": auto_split, "ops": ops, "fail": fail}


def strategy(tier, stratum):
    return _case(stratum)


def _prepare_fail(op, case, world):
    """Turns the final ordinary operation into one that is meant to be refused."""
    op = dict(op)
    mode = op["mode"]
    kind = op["op"]
    M = case["M"]
    if mode == "limit":
        if kind in ("aspirate", "dispense"):
            op["vols"] = _with_bad(op["vols"], op["bad"], op["bad_pos"])
            op.pop("cap", None)
        elif kind == "transfer":
            op["vols"] = _with_bad(op["vols"], op["bad"], op["bad_pos"])
        elif kind == "distribute":
            op["vol"] = op["bad"]
            if op["bad_pos"] % 3:
                # two thirds of the refusals come from the source column, and then preferably not from the first one
                op["fail_side"] = "src"
                ncols = world.specs[op["src"] % len(world.specs)]["cols"]
                if ncols >= 2:
                    op["col"] = 1 + op["col"] % (ncols - 1)
        else:
            v = op["vols"]
            if isinstance(v, list):
                v = list(v)
                v[op["bad_pos"] % len(v)] = op["bad"]
                op["vols"] = v
            else:
                op["vols"] = op["bad"]
    elif mode == "oversize":
        big = round(M + op["over_by"] * max(M, 1), 2)
        if kind in ("aspirate", "dispense", "transfer"):
            op["vols"] = _with_bad(op["vols"], big, op["bad_pos"])
            op.pop("cap", None)
        elif kind == "distribute":
            op["vol"] = big
        else:
            v = op["vols"]
            if isinstance(v, list):
                v = list(v)
                v[op["bad_pos"] % len(v)] = big
                op["vols"] = v
            else:
                op["vols"] = big
    else:
        late = op["late"]
        kw = dict(op.get("kw") or {})
        if kind == "transfer":
            if late in ("wash7", "washNone0"):
                op["wash"] = 7 if late == "wash7" else 0
            elif late == "tip9":
                kw["tip"] = 9
            elif late == "rack_id33":
                kw["rack_id"] = "x" * 33
            else:
                kw["liquid_class"] = "a;b"
        elif kind in ("aspirate", "dispense"):
            if late == "tip9":
                kw["tip"] = 9
            elif late == "rack_id33":
                kw["rack_id"] = "x" * 33
            else:
                kw["liquid_class"] = "a;b"
        elif kind == "distribute":
            if late == "direction":
                kw["direction"] = "upwards"
            elif late == "rack_id33":
                kw["src_rack_id"] = "x" * 33
            else:
                kw["liquid_class"] = "a;b"
        else:
            if late == "arm2":
                op["arm"] = 2
            else:
                op["lc"] = "a;b"
        op["kw"] = kw
    return op


def check_case(case) -> Obs:
    import robotools

    obs = Obs()
    obs.units = 0
    specs = case["labs"]
    device = case["device"]
    M = case["M"]
    tmp = tempfile.mkdtemp(prefix="vf_c03_")
    path = os.path.join(tmp, "out.gwl")
    cls = robotools.EvoWorklist if device == "evo" else robotools.FluentWorklist
    racks = [gwl.Rack.from_spec(s) for s in specs]
    interp = gwl.Interp(racks, device, max_step=M, known=gwl.lenient_f11_hook)
    troughs = trough_indices(specs)
    final_exc = None
    final_records = None
    liquid_before_fail = 0
    obs.cls("dev:" + device, "auto_split:" + str(case["auto_split"]))
    try:
        try:
            with cls(path, max_volume=M, auto_split=case["auto_split"]) as wl:
                world = World(specs, device=device, grid=0.01, worklist=wl)
                seen = 0
                fed_empty = []
                initially_empty = {(i_, idx_) for i_, lw_ in enumerate(world.labs) for idx_ in np.ndindex(lw_.volumes.shape) if lw_.volumes[idx_] == 0}
                program = []
                fed = False
                for o in case["ops"]:
                    fed = fed or o.get("to_empty") is not None
                    if o["op"] == "transfer" and o.get("hint") is not None and not fed and initially_empty:
                        # a hinted transfer needs a well of unknown content: feed one first
                        program.append({"op": "dispense", "lw": 0, "wells": {"t": "scalar", "w": [0, 0]}, "vols": {"t": "scalar", "v": {"f": 0.5}}, "label": None, "to_empty": o["hint"], "final": False})
                        fed = True
                    program.append(dict(o, final=False))
                program.append(dict(case["fail"], final=True))
                for k, op in enumerate(program):
                    kind = op["op"]
                    if kind.startswith("evo_") and device != "evo":
                        op["op"] = kind = "aspirate" if kind == "evo_aspirate" else "dispense"
                        op["wells"] = {"t": "list", "w": [[r, op["col"]] for r in op["rows"]]}
                        op["vols"] = {"t": "list", "v": op["vols"]} if isinstance(op["vols"], list) else {"t": "scalar", "v": op["vols"]}
                    if kind == "distribute":
                        if not troughs:
                            continue
                        op["src"] = troughs[op["src"] % len(troughs)]
                    if kind == "dispense" and op.get("to_empty") is not None and initially_empty:
                        pool = sorted(initially_empty)
                        i_, idx_ = pool[op["to_empty"] % len(pool)]
                        op["lw"], op["wells"] = i_, {"t": "scalar", "w": [idx_[0], idx_[1]]}
                        op["vols"] = {"t": "scalar", "v": {"f": 0.5}}
                    if kind == "transfer" and op.get("hint") is not None and fed_empty:
                        i_, idx_ = fed_empty[op["hint"] % len(fed_empty)]
                        op["src"], op["sw"] = i_, {"t": "scalar", "w": [idx_[0], idx_[1]]}
                        op["dw"] = {"t": "scalar", "w": [0, 0]}
                        op["vols"] = {"t": "scalar", "v": {"f": 0.6}}
                        obs.cls("hinted-transfer")
                    if not op["final"] or op["mode"] != "oversize":
                        # ordinary operations stay within what a single step can carry
                        if kind in ("aspirate", "dispense", "distribute") or kind.startswith("evo_"):
                            op["cap"] = M
                        elif not case["auto_split"]:
                            op["cap"] = M
                        else:
                            op["cap"] = 6 * M
                    if op["final"]:
                        liquid_before_fail = sum(1 for m in interp.moves)
                        op = _prepare_fail(op, case, world)
                    conc = resolve(world, op)
                    if kind == "distribute" and not conc["dflat"]:
                        continue
                    if not op["final"]:
                        # ordinary operations the limits clearly refuse are skipped (the failing one comes last)
                        if kind == "transfer":
                            if expect_transfer(world, conc) == "refuse-any":
                                obs.cls("skipped-ordinary")
                                continue
                        elif expect_sequential(world, flat_pairs(world, conc))[0] not in ("accept", "either"):
                            obs.cls("skipped-ordinary")
                            continue
                    step = execute(world, conc)
                    obs.units += 1
                    if kind == "dispense" and step.exc is None:
                        for i_, idx_, dv_, _ in flat_pairs(world, conc):
                            if dv_ > 0 and (i_, idx_) in initially_empty and (i_, idx_) not in fed_empty:
                                fed_empty.append((i_, idx_))
                    # replay of the records so far
                    new = list(wl[seen:])
                    interp.run(new, start=seen)
                    seen = len(wl)
                    for iss in interp.issues:
                        obs.bad(
                            "C03/" + iss.kind,
                            f"after op {k} {kind}{' (final, ' + op['mode'] + ')' if op['final'] else ''} [{type(step.exc).__name__ if step.exc else 'returned'}]: record {iss.index} {wl[iss.index] if iss.index < len(wl) else ''!r}: {iss.msg}",
                        )
                    interp.issues = []
                    if step.exc is not None:
                        final_exc = step.exc
                        final_records = list(wl)
                        if op["final"]:
                            obs.cls(f"fail:{op['mode']}:raised", "failop:" + kind)
                            if op["mode"] == "oversize" and not case["auto_split"] and kind == "transfer" and not isinstance(step.exc, (robotools.InvalidOperationError, robotools.VolumeViolationException)):
                                obs.bad("C03/oversize-wrong-exception", f"auto_split=False transfer with a step above max_volume raised {type(step.exc).__name__}: {step.exc}")
                            # sub-step index of the refusal
                            pairs = flat_pairs(world, conc)
                            changed = any((a != b).any() for a, b in zip(step.pre, step.post))
                            if changed or len(new) > 0:
                                obs.cls("k>0")
                            else:
                                obs.cls("k=0")
                        else:
                            obs.cls("ordinary-op-raised")
                        obs.cls("raised:" + type(step.exc).__name__)
                        raise step.exc
                    if op["final"]:
                        obs.cls(f"fail:{op['mode']}:returned")
                        if op["mode"] == "oversize" and not case["auto_split"] and kind == "transfer":
                            big = round(M + op["over_by"] * max(M, 1), 2)
                            if any(v > M for v in conc["flatvols"]):
                                obs.bad("C03/oversize-accepted", f"auto_split=False: transfer with volumes {conc['flatvols']} (max_volume {M}) returned normally")
                final_records = list(wl)
        except Exception as exc:
            if exc is not final_exc:
                raise
        # the file written when the with-block was left
        if final_records is None:
            final_records = []
        if not os.path.exists(path):
            obs.bad("C03/no-file", f"leaving the with-block ({'by ' + type(final_exc).__name__ if final_exc else 'normally'}) did not write {os.path.basename(path)}")
        else:
            data = open(path, "rb").read().decode("latin-1")
            lines = data.split("\r\n") if data else []
            if lines != final_records:
                obs.bad("C03/file-differs", f"file has {len(lines)} lines {lines[-3:]}, worklist has {len(final_records)} records {final_records[-3:]}")
            # replay of the file itself
            racks2 = [gwl.Rack.from_spec(s) for s in specs]
            interp2 = gwl.Interp(racks2, device, max_step=M, known=gwl.lenient_f11_hook)
            interp2.run(lines)
            for iss in interp2.issues:
                obs.bad("C03/file-" + iss.kind, f"file line {iss.index} {lines[iss.index]!r}: {iss.msg}")
        obs.nontrivial = final_exc is not None and liquid_before_fail > 0
    finally:
        shutil.rmtree(tmp, ignore_errors=True)
    return obs
