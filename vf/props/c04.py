"""C04 - exact volume bookkeeping per real well, including trough aliasing."""
from fractions import Fraction

import numpy as np
from hypothesis import strategies as st

from vf.core import Obs
from vf.lab import lab_spec
from vf.prog import ops_list, World, execute, expect_sequential, flat_pairs, label_st, model_apply, model_resync, resolve, vs_bad, vs_ok, vsel, wsel

PID = "C04"
RULE = (
    "case = one labware (plate or trough, any geometry class, any limits) + a history of 1..20 add/remove calls "
    "(direct, or via worklist aspirate/dispense of the drawn device) whose well argument is a scalar id / list with "
    "repeats / 1-D array / 2-D slice / arbitrary 2-D id array (troughs: any virtual-row id) and whose volume "
    "argument is a scalar / list / 1-D list against 2-D wells / 2-D array; volumes are resolved against the current "
    "state so that the call is within limits; stream 'dyadic' uses multiples of 0.25 (float arithmetic exact -> exact "
    "comparison), stream 'float' arbitrary floats (1e-9 relative). Non-trivial = history with >= 2 accepted calls of "
    "which one has a repeated real well, a 2-D argument or a trough id with virtual row != A; distinct by JSON."
)
ASSUMPTIONS = [
    "model: explicit column-major pairing loops, scalar broadcast, one charge per occurrence, trough ids mapped to (0, column) by parsing the id",
    "a call the three-valued limit decision does not clearly accept is skipped (limits are C02's subject); a call that raises ends the history",
]
BUDGET = {"quick": (4, 500), "thorough": (16, 6000)}
KNOWN_KINDS = {}


STRATA = ["add", "remove", "aspirate", "dispense"]
REQUIRED_CLASSES = ["accepted-after-refused", "via:add", "via:remove", "via:aspirate", "via:dispense", "2-D-volumes", "1-D-volumes-vs-2-D-wells", "repeated-well", "virtual-row-alias", "2x2-or-larger"]


@st.composite
def _case(draw, focus, tier="quick"):
    q = draw(st.sampled_from([0.25, 0.25, None]))
    spec = draw(lab_spec("Lab", kind=draw(st.sampled_from(["plate", "trough"])), max_rows=8, max_cols=8, regime=draw(st.sampled_from(["roomy", "tight"])), grid=bool(q), q=q or 0.01, allow_names=False))
    kinds = [focus] * 2 + ["add", "remove", "aspirate", "dispense"]
    op_any = st.fixed_dictionaries(
        {
            "op": st.sampled_from(kinds),
            "lw": st.just(0),
            "wells": wsel(max_n=6),
            "vols": vsel(st.one_of(*([vs_ok(q)] * 7), vs_bad()), max_n=6),
            "label": label_st,
            "ints": st.booleans(),
            # what the caller says about the added liquid must not matter for the volumes
            "comps": st.sampled_from([None, None, None, "empty", "nones", 1, 3]),
        }
    )
    # a genuinely 2-D call: >= 2x2 wells with pairwise different volumes given as a 2-D array or as a flat list
    small = st.integers(1, 12).map(lambda i: i * (q or 0.37))
    op_2d = st.fixed_dictionaries(
        {
            "op": st.sampled_from(kinds),
            "lw": st.just(0),
            "wells": st.one_of(
                st.fixed_dictionaries({"t": st.just("slice"), "r0": st.integers(0, 7), "h": st.integers(2, 3), "c0": st.integers(0, 7), "w": st.integers(2, 3)}),
                st.fixed_dictionaries({"t": st.just("arr2"), "w": st.lists(st.lists(st.tuples(st.integers(0, 15), st.integers(0, 23)).map(list), min_size=2, max_size=3), min_size=2, max_size=2)}),
                # a block of full rows with the corner wells in place and the rows in between swapped or repeated
                st.tuples(st.integers(0, 4), st.integers(0, 5), st.sampled_from([[0, 2, 1, 3], [0, 1, 1, 3], [0, 2, 2, 3], [0, 2, 1]]), st.integers(2, 3)).map(
                    lambda x: {"t": "arr2", "w": [[[x[0] + r, x[1] + c] for c in range(x[3])] for r in x[2]]}
                ),
            ),
            "vols": st.fixed_dictionaries({"t": st.sampled_from(["grid", "grid", "list"]), "v": st.lists(small, min_size=6, max_size=6, unique=True)}),
            "label": label_st,
            "ints": st.booleans(),
        }
    )
    op = st.one_of(op_any, op_any, op_2d)
    return {"lab": spec, "device": draw(st.sampled_from(["evo", "fluent"])), "q": q, "ops": draw(ops_list(op, 1, 20 if tier == "quick" else 30))}


def strategy(tier, stratum):
    return _case(stratum, tier)


def check_case(case) -> Obs:
    obs = Obs()
    obs.units = 0
    spec = case["lab"]
    q = case["q"]
    world = World([spec], device=case["device"], grid=q, wl_kwargs={"max_volume": 1e9})
    lw = world.labs[0]
    # a second labware built from the SAME float64 array object, and the array itself, must stay untouched
    shared = np.array([spec["init"]] if spec["kind"] == "trough" else spec["init"], dtype=float)
    shared_copy = shared.copy()
    if spec["kind"] == "plate":
        import robotools

        world.labs[0] = lw = robotools.Labware(spec["name"], spec["rows"], spec["cols"], min_volume=spec["min"], max_volume=spec["max"], initial_volumes=shared)
        twin = robotools.Labware("Twin", spec["rows"], spec["cols"], min_volume=spec["min"], max_volume=spec["max"], initial_volumes=shared)
    else:
        twin = None
    model = world.models[0]
    obs.cls("kind:" + spec["kind"], "stream:" + ("dyadic" if q else "float"))
    accepted = 0
    interesting = False
    refused_before = False
    exact = bool(q)
    shape = (1 if spec["kind"] == "trough" else spec["rows"], spec["cols"])
    for k, op in enumerate(case["ops"]):
        conc = resolve(world, op)
        pairs = flat_pairs(world, conc)
        verdict, _ = expect_sequential(world, pairs)
        step = execute(world, conc)
        obs.units += 1
        if verdict != "accept":
            # a call that is (or may be) refused: whether it is, is C02's subject. Here: wells it did not address are
            # unchanged, and whatever it left behind is the basis of the exact bookkeeping of the calls that follow.
            obs.cls("not-accepted:" + verdict + (":raised" if step.exc is not None else ":returned"))
            touched = {idx for _, idx, _, _ in pairs}
            vols = lw.volumes
            for idx in model.wells():
                if idx not in touched and float(vols[idx]).hex() != float(step.pre[0][idx]).hex():
                    obs.bad("C04/frame", f"op {k} {conc['op']} on {conc['wells']['ids']} ({verdict}, {type(step.exc).__name__ if step.exc else 'returned'}) changed the unaddressed well {idx}: {float(step.pre[0][idx])!r} -> {float(vols[idx])!r}")
                    break
            if obs.violations:
                break
            model_resync(world)
            refused_before = True
            if exact and any((Fraction(float(x)) / Fraction(q)).denominator != 1 for x in vols.flatten()):
                exact = False  # a call on the edge of a limit left a value off the dyadic grid: float round-off from here on
            continue
        if step.exc is not None:
            obs.cls("ended-by-" + type(step.exc).__name__)
            break
        if refused_before:
            obs.cls("accepted-after-refused")
        if exact and any((Fraction(float(dv)) / Fraction(q)).denominator != 1 for _, _, dv, _ in pairs):
            exact = False  # a volume off the dyadic grid (one ulp beside a limit): float round-off from here on
        model_apply(world, conc)
        accepted += 1
        vols = lw.volumes
        if vols.shape != shape:
            obs.bad("C04/shape", f"volumes.shape {vols.shape} != real shape {shape}")
            break
        touched = {idx for _, idx, _, _ in pairs}
        for idx in model.wells():
            real = float(vols[idx])
            if exact:
                ok = Fraction(real) == model.vol[idx]
            else:
                m = float(model.vol[idx])
                ok = abs(real - m) <= 1e-9 * max(1.0, abs(m))
            if not ok:
                obs.bad(
                    "C04/volume",
                    f"after op {k} {conc['op']} wells={conc['wells']['ids']} vols={conc['vols']['v']}: well {idx} holds {real!r}, model {float(model.vol[idx])!r} ({spec['kind']} {shape})",
                )
                break
            if idx not in touched and real.hex() != float(step.pre[0][idx]).hex():
                obs.bad("C04/frame", f"op {k} {conc['op']} on {conc['wells']['ids']} changed the unaddressed well {idx}: {float(step.pre[0][idx])!r} -> {real!r}")
                break
        if obs.violations:
            break
        idxs = [idx for _, idx, _, _ in pairs]
        if len(set(idxs)) < len(idxs):
            interesting = True
            obs.cls("repeated-well")
        if conc["wells"]["t"] == "arr2":
            interesting = True
            obs.cls("2-D-wells")
            if len(conc["wells"]["ids"]) >= 2 and len(conc["wells"]["ids"][0]) >= 2:
                obs.cls("2x2-or-larger")
            if conc["vols"]["t"] == "arr2":
                obs.cls("2-D-volumes")
            elif conc["vols"]["t"] == "list":
                obs.cls("1-D-volumes-vs-2-D-wells")
        if spec["kind"] == "trough":
            flat_ids = np.array(conc["wells"]["ids"]).flatten().tolist()
            if any(w[0] != "A" for w in flat_ids):
                interesting = True
                obs.cls("virtual-row-alias")
        obs.cls("via:" + conc["op"])
    if twin is not None and not obs.violations:
        if not np.array_equal(shared, shared_copy):
            obs.bad("C04/caller-array-mutated", f"the array passed as initial_volumes was changed by operations on the labware: {shared_copy.tolist()} -> {shared.tolist()}")
        elif not np.array_equal(twin.volumes, shared_copy):
            obs.bad("C04/labware-aliased", f"a second labware built from the same initial_volumes array changed without being addressed: {twin.volumes.tolist()}")
        else:
            before = lw.volumes
            shared += 1.0
            if not np.array_equal(lw.volumes, before):
                obs.bad("C04/state-aliases-caller-array", "changing the caller's initial_volumes array after construction changed Labware.volumes")
    obs.nontrivial = accepted >= 2 and interesting
    return obs
