"""C01 - the emitted worklist reproduces the tracked labware state when executed."""
import math
import os
from fractions import Fraction

import numpy as np
from hypothesis import strategies as st

from vf import gwl
from vf.core import Obs
from vf.lab import LETTERS, lab_spec, real_idx
from vf.prog import ops_list, World, quantize, execute, expect_sequential, expect_transfer, flat_pairs, label_st, op_direct, op_distribute, op_transfer, resolve, trough_indices, vs_ok

PID = "C01"
RULE = (
    "case = 1..3 labware with distinct names (plates up to 16x24, troughs up to 16 virtual rows x 6 columns; roomy or "
    "tight limits; regime 'grid' = all numbers multiples of 0.01, 'float' = arbitrary floats) + device + worklist "
    "max_volume (integer and non-integer) + a program of 1..10 operations aspirate / dispense / transfer (all wash "
    "schemes, partition modes, well lists with repeats, 2-D arrays, broadcast singletons, volumes 0 / fractional / far "
    "above max_volume) / distribute (pairwise distinct destination positions). Volumes are resolved against the "
    "current state so that most operations succeed; the program stops at the first operation that raises. After "
    "EVERY operation list(worklist) is replayed by the independent interpreter from the initial contents. "
    "Non-trivial = program in which >= 1 operation emitted an A/D/R record and changed a well; distinct by JSON."
)
ASSUMPTIONS = [
    "record semantics = vf/gwl.py (Tecan worklist format as quoted in the repository docstrings)",
    "volume tolerance: 0.005 per record touching the well in the float regime; 1e-6 in the grid regime (rounding lossless)",
    "composition is compared (grid regime) only for wells whose liquid comes from initially filled wells through transfer/distribute; wells that received a raw dispense (unknown composition) and everything they feed are excluded",
    "distribute volumes are multiples of 0.01 also in the float regime (the R record prints the volume unrounded; its number format for tiny values is C09's subject)",
    "open finding F11: the source range of a FluentWorklist.distribute R record uses EVO numbering; the interpreter then continues with the named column",
]
BUDGET = {"quick": (4, 300), "thorough": (16, 4000)}
KNOWN_KINDS = {"C01/F11-fluent-distribute-source-range": "F11"}
REQUIRED_CLASSES = ["op:aspirate", "op:dispense", "op:transfer", "op:distribute", "dev:evo", "dev:fluent", "trough-record", "split"]

MS = [1, 7, 50, 200, 950, 1200, 0.5, 2.5, 33.3, 950.5]


STRATA = [[dev, focus] for dev in ("evo", "fluent") for focus in ("direct", "transfer", "distribute")]


@st.composite
def _case(draw, tier, stratum):
    big = tier == "thorough"
    q = draw(st.sampled_from([0.01, 0.01, None]))
    n = draw(st.integers(1, 3))
    labs = []
    names = ["Alpha 70%", "Beta plate ", " Gamma_3"]
    device, focus = stratum
    for i in range(n):
        kind = draw(st.sampled_from(["plate", "trough"])) if i == 0 else draw(st.sampled_from(["plate", "plate", "trough"]))
        regime = draw(st.sampled_from(["roomy", "roomy", "tight"]))
        if i == 0 and focus == "distribute":
            kind = "trough"
        labs.append(
            draw(lab_spec(names[i], kind=kind, max_rows=16 if big else 8, max_cols=(24 if big else 12) if kind == "plate" else 6, regime=regime, grid=bool(q), q=q or 0.01, pos=(10 + i, 1 + i), filled=True if (i == 0 and draw(st.booleans())) else None))
        )
    # sometimes a plate and a trough with the same id grid (rows x columns) share the worklist
    if n >= 2 and labs[0]["kind"] == "trough" and labs[1]["kind"] == "plate" and draw(st.integers(0, 2)) == 0:
        labs[1] = draw(lab_spec(names[1], kind="plate", max_rows=labs[0]["vrows"], max_cols=labs[0]["cols"], regime="roomy", grid=bool(q), q=q or 0.01, pos=(11, 2), filled=True))
        labs[1]["rows"], labs[1]["cols"] = labs[0]["vrows"], labs[0]["cols"]
        v0 = labs[1]["init"][0][0]
        labs[1]["init"] = [[v0] * labs[0]["cols"] for _ in range(labs[0]["vrows"])]
        labs[1]["names"] = None
    vs = vs_ok(q)
    bigv = st.one_of(vs, st.fixed_dictionaries({"f": st.floats(0.3, 1.0).map(lambda x: round(x, 3))}))
    anyop = st.one_of(op_direct(vs, kinds=("aspirate", "dispense")), op_transfer(bigv), op_transfer(bigv), op_distribute(vs))
    fop = {"direct": op_direct(vs, kinds=("aspirate", "dispense")), "transfer": op_transfer(bigv), "distribute": op_distribute(vs)}[focus]
    ops = st.one_of(fop, anyop)
    return {
        "labs": labs,
        "device": device,
        "q": q,
        "M": draw(st.sampled_from(MS)),
        "ops": draw(ops_list(ops, 1, 10 if tier == "quick" else 20)),
    }


def strategy(tier, stratum):
    return _case(tier, stratum)


def _cidx(w):
    return [LETTERS.index(w[0]), int(w[1:]) - 1]


def check_case(case) -> Obs:
    obs = Obs()
    obs.units = 0
    specs = case["labs"]
    device = case["device"]
    q = case["q"]
    M = case["M"]
    world = World(specs, device=device, grid=q, wl_kwargs={"max_volume": M, "auto_split": True})
    wl = world.wl
    troughs = trough_indices(specs)
    obs.cls("dev:" + device, "regime:" + ("grid" if q else "float"))
    # initial component name of every origin
    origin_name = {}
    for i, (spec, lw) in enumerate(zip(specs, world.labs)):
        for idx in np.ndindex(lw.volumes.shape):
            for k, arr in lw.composition.items():
                if arr[idx] > 0:
                    origin_name[(spec["name"], idx[0], idx[1])] = k
    raw_D = set()  # record indices of D records produced by raw dispense operations
    r_named = {}  # record index -> (source rack name, named column)
    moved = False
    racks = [gwl.Rack.from_spec(s) for s in specs]
    rack_of = {r.name: r for r in racks}
    holder = {}

    def known_hook(what, rec, info):
        if what != "R-source":
            return None
        interp = holder["interp"]
        src = info["src"]
        named = r_named.get(interp.n)
        if named is None:
            return None
        col = named[1]
        V = src.id_rows
        s0, s1 = int(rec.f["src_start"]), int(rec.f["src_end"])
        if info["device"] == "fluent" and src.kind == "trough" and V > 1 and (s0, s1) == (1 + V * col, V * (col + 1)):
            interp.issue("known-F11", f"{rec.text!r}: source range {s0}..{s1} is the EVO numbering of column {col + 1}; the Fluent numbering is {1 + col}..{1 + col}")
            return (0, col)
        return None

    interp = gwl.Interp(racks, device, known=known_hook)
    holder["interp"] = interp
    seen_records = []
    touched = {}
    n_moves_seen = 0
    n_issues_seen = 0

    for k, op in enumerate(case["ops"]):
        op = dict(op)
        kind = op["op"]
        if kind == "distribute":
            if not troughs:
                continue
            op["src"] = troughs[op["src"] % len(troughs)]
            op["cap"] = M
        if kind == "transfer":
            op["cap"] = 12.5 * M  # keeps the number of split steps per triple <= 13
        if kind in ("aspirate", "dispense"):
            op["cap"] = M  # raw aspirate/dispense steps are not split
        conc = resolve(world, op)
        if kind == "distribute":
            if q is None:
                conc["vol"] = quantize(conc["vol"], 0.01)  # see ASSUMPTIONS: R records print the volume unrounded
            if conc["vol"] > M or not conc["dflat"]:
                continue
        if kind in ("aspirate", "dispense", "distribute"):
            verdict, _ = expect_sequential(world, flat_pairs(world, conc))
            if verdict != "accept":
                obs.cls("skipped-" + verdict)
                continue
        elif expect_transfer(world, conc) == "refuse-any":
            obs.cls("skipped-refuse")
            continue
        step = execute(world, conc)
        obs.units += 1
        if step.exc is not None:
            obs.cls("ended-by-" + type(step.exc).__name__)
            if os.environ.get("VF_DEBUG"):
                print("ENDED", k, conc, repr(step.exc)[:300], [p.tolist() for p in step.pre], [(s_["min"], s_["max"]) for s_ in specs])
            break
        obs.cls("op:" + kind)
        new = list(wl[step.rec0 : step.rec1])
        if list(wl[: step.rec0]) != seen_records:
            obs.bad("C01/worklist-rewritten", f"op {k} {kind} changed records that were emitted earlier")
            break

        # ---------------- addressing of the records of this operation
        body = [r for r in new if not r.startswith("C;")]
        if kind in ("aspirate", "dispense"):
            spec = specs[conc["lw"]]
            rack = rack_of[spec["name"]]
            pairs = flat_pairs(world, conc)
            ids = conc["wells"]["ids"]
            if conc["wells"]["t"] == "scalar":
                flat_ids = [ids]
            elif conc["wells"]["t"] == "arr2":
                flat_ids = [ids[r][c] for c in range(len(ids[0])) for r in range(len(ids))]
            else:
                flat_ids = list(ids)
            expected = [(w, p[2]) for w, p in zip(flat_ids, pairs) if p[2] > 0]
            if len(body) != len(expected):
                obs.bad("C01/record-count", f"op {k} {kind}: {len(body)} records for {len(expected)} wells with volume > 0: {body[:6]}")
            else:
                # every named well gets its record (the order of the records is the implementation's business)
                pending = [r_.split(";") for r_ in body]
                for w, v in expected:
                    want_pos = rack.position_of(w, device)
                    hit = None
                    for f in pending:
                        if f[0] == ("A" if kind == "aspirate" else "D") and f[1] == spec["name"] and f[4] == str(want_pos) and abs(float(f[6]) - v) <= 0.005 + 1e-9:
                            hit = f
                            break
                    if hit is None:
                        obs.bad("C01/addressing", f"op {k} {kind} {device}: well {w} ({spec['kind']}) volume {v}: no record for rack {spec['name']!r} position {want_pos} among {body[:6]}")
                        break
                    pending.remove(hit)
            if kind == "dispense":
                for j in range(step.rec0, step.rec1):
                    if wl[j].startswith("D;"):
                        raw_D.add(j)
            if spec["kind"] == "trough" and body:
                obs.cls("trough-record")
        elif kind == "transfer":
            ss, ds = specs[conc["src"]], specs[conc["dst"]]
            srack, drack = rack_of[ss["name"]], rack_of[ds["name"]]
            want = {}
            for (s, d), v in zip(conc["pairs"], conc["flatvols"]):
                if v > 0:
                    key = (srack.position_of(s, device), drack.position_of(d, device))
                    want[key] = want.get(key, 0.0) + v
            got = {}
            nrec = {}
            ad = [r for r in body if r[:2] in ("A;", "D;")]
            ok = len(ad) % 2 == 0
            for a, d in zip(ad[0::2], ad[1::2]):
                fa, fd = a.split(";"), d.split(";")
                if fa[0] != "A" or fd[0] != "D" or fa[6] != fd[6]:
                    ok = False
                    break
                if fa[1] != ss["name"] or fd[1] != ds["name"]:
                    obs.bad("C01/addressing", f"op {k} transfer: pair {a!r} / {d!r} does not address racks {ss['name']!r} -> {ds['name']!r}")
                key = (int(fa[4]), int(fd[4]))
                got[key] = got.get(key, 0.0) + float(fa[6])
                nrec[key] = nrec.get(key, 0) + 1
            if not ok:
                obs.bad("C01/transfer-stream", f"op {k} transfer: A/D records do not pair up: {ad[:6]}")
            else:
                for key in set(want) | set(got):
                    if abs(want.get(key, 0.0) - got.get(key, 0.0)) > 0.005 * max(1, nrec.get(key, 1)) + 1e-9 * want.get(key, 0.0):
                        obs.bad("C01/routing", f"op {k} transfer {device}: positions {key}: records move {got.get(key, 0.0)}, requested {want.get(key, 0.0)} (pairs {conc['pairs']}, vols {conc['flatvols']})")
            if len(ad) // 2 > sum(1 for v in conc["flatvols"] if v > 0):
                obs.cls("split")
            if (ss["kind"] == "trough" or ds["kind"] == "trough") and ad:
                obs.cls("trough-record")
            if conc["src"] == conc["dst"]:
                obs.cls("same-labware-transfer")
            if conc["sw"]["t"] == "arr2" or conc["dw"]["t"] == "arr2":
                obs.cls("2-D-args")
        elif kind == "distribute":
            ss, ds = specs[conc["src"]], specs[conc["dst"]]
            drack = rack_of[ds["name"]]
            if len(body) != 1 or not body[0].startswith("R;"):
                obs.bad("C01/distribute-records", f"op {k} distribute emitted {body}")
            else:
                f = body[0].split(";")
                r_named[step.rec0 + new.index(body[0])] = (ss["name"], conc["col"])
                if f[1] != ss["name"] or f[6] != ds["name"]:
                    obs.bad("C01/addressing", f"op {k} distribute: record {body[0]!r} does not name racks {ss['name']!r} -> {ds['name']!r}")
                want_pos = sorted(drack.position_of(w, device) for w in conc["dflat"])
                try:
                    d0, d1 = int(f[9]), int(f[10])
                    excl = {int(x) for x in f[16:]}
                    got_pos = [p for p in range(d0, d1 + 1) if p not in excl]
                except ValueError:
                    got_pos = None
                if got_pos != want_pos:
                    obs.bad("C01/distribute-destinations", f"op {k} distribute {device}: record {body[0]!r} addresses destination positions {got_pos}, named wells {conc['dflat']} = {want_pos}")
                try:
                    if abs(float(f[11]) - conc["vol"]) > 1e-9 * max(1.0, conc["vol"]):
                        obs.bad("C01/distribute-volume", f"op {k} distribute: record volume {f[11]} != {conc['vol']}")
                except ValueError:
                    obs.bad("C01/distribute-volume", f"op {k} distribute: record volume {f[11]!r} is not a number")
            obs.cls("trough-record", "distribute")

        # ---------------- replay: the interpreter state persists, so feeding the new records is the replay of the
        # whole (append-only, checked above) worklist from the initial contents
        records = list(wl)
        interp.run(new, start=step.rec0)
        seen_records = records
        for iss in interp.issues[n_issues_seen:]:
            if iss.kind == "known-F11":
                obs.bad("C01/F11-fluent-distribute-source-range", iss.msg)
            elif iss.kind in ("malformed", "addressing"):
                obs.bad("C01/interpreter-" + iss.kind, f"after op {k} {kind}: record {iss.index}: {iss.msg}")
        n_issues_seen = len(interp.issues)
        # the R source must be the named column
        for mv in interp.moves[n_moves_seen:]:
            if mv["type"] == "R" and mv["index"] in r_named:
                name, col = r_named[mv["index"]]
                if mv["rack"] != name or mv["well"] != (0, col):
                    obs.bad("C01/distribute-source", f"R record {records[mv['index']]!r} draws from {mv['rack']}{mv['well']}, the operation named column {col} of {name}")
        # volumes
        for mv in interp.moves[n_moves_seen:]:
            if mv["type"] in ("A", "D"):
                touched[(mv["rack"], mv["well"])] = touched.get((mv["rack"], mv["well"]), 0) + 1
            elif mv["type"] == "R":
                touched[(mv["rack"], mv["well"])] = touched.get((mv["rack"], mv["well"]), 0) + 1
                for w in mv["dst_wells"]:
                    touched[(mv["dst_rack"], w)] = touched.get((mv["dst_rack"], w), 0) + 1
        n_moves_seen = len(interp.moves)
        for spec, lw, rack in zip(specs, world.labs, racks):
            vols = lw.volumes
            for idx in np.ndindex(vols.shape):
                real = float(vols[idx])
                sim = float(rack.vol[idx])
                n = touched.get((spec["name"], idx), 0)
                tol = (1e-6 if q else 0.005 * n + 1e-9) + 1e-9 * abs(real)
                if abs(real - sim) > tol:
                    obs.bad("C01/volume", f"after op {k} {kind} ({device}, M={M}): {spec['name']}{idx}: Labware.volumes {real!r} but executing the worklist gives {sim!r} ({n} records touch the well)")
                    break
        # composition (grid regime): wells fed only through transfer/distribute from initially filled wells
        if q and not obs.violations:
            tainted = _tainted(interp, records, raw_D)
            for spec, lw, rack in zip(specs, world.labs, racks):
                comp = lw.composition
                for idx in np.ndindex(lw.volumes.shape):
                    if (spec["name"], idx) not in touched:
                        continue
                    if (spec["name"], idx) in tainted or idx in rack.tainted or rack.vol[idx] <= Fraction(1, 10**6):
                        continue
                    total = sum(rack.content[idx].values())
                    if total <= 0:
                        continue
                    agg = {}
                    for origin, amount in rack.content[idx].items():
                        nm = origin_name.get(origin)
                        if nm is None:
                            agg = None
                            break
                        agg[nm] = agg.get(nm, Fraction(0)) + amount / total
                    if agg is None:
                        continue
                    reported = {kname: float(arr[idx]) for kname, arr in comp.items()}
                    for nm in set(agg) | {n_ for n_, f_ in reported.items() if f_ > 0}:
                        if abs(float(agg.get(nm, 0)) - reported.get(nm, 0.0)) > 1e-9:
                            obs.bad(
                                "C01/composition",
                                f"after op {k} {kind} ({device}): {spec['name']}{idx}: Labware.composition[{nm!r}]={reported.get(nm, 0.0)!r}, executing the worklist gives {float(agg.get(nm, 0))!r}",
                            )
                            break
                    wid_ = f"{LETTERS[idx[0]]}{idx[1] + 1:02d}"
                    gw = lw.get_well_composition(wid_)
                    if gw is not None and {a: float(b) for a, b in gw.items()} != {a: b for a, b in reported.items() if b > 0}:
                        obs.bad("C01/get_well_composition", f"{spec['name']}.{wid_}: get_well_composition {gw} != composition arrays {reported}")
                    if obs.violations:
                        break
                if obs.violations:
                    break
        if any(mv["type"] in ("A", "D", "R") and mv.get("vol", 0) > 0 for mv in interp.moves):
            moved = True
        if [v for v in obs.violations if v[0] not in KNOWN_KINDS]:
            break
    _msg = world.templates_changed()
    if _msg:
        obs.bad("C01/untouched-object-changed", _msg)
    if world.templates:
        obs.cls("cloned-labware")
    if not obs.violations and len(world.wl) > 0:
        # the file the robot executes holds the very records that were interpreted above (rack labels byte for byte)
        import shutil
        import tempfile

        tmp = tempfile.mkdtemp(prefix="vf_c01_")
        try:
            path = os.path.join(tmp, "run.gwl")
            world.wl.save(path)
            data = open(path, "rb").read().decode("latin-1")
            if data.split("\r\n") != [str(r) for r in world.wl]:
                obs.bad("C01/file-differs", f"the saved worklist does not hold the records that were executed: {data[:120]!r} vs {list(world.wl)[:3]}")
        finally:
            shutil.rmtree(tmp, ignore_errors=True)
    obs.nontrivial = moved
    return obs


def _tainted(interp, records, raw_D):
    """Wells that (transitively) received liquid through a raw dispense: their composition is not tracked."""
    tainted = set()
    last_A = None
    for mv in interp.moves:
        if mv["type"] == "A":
            last_A = mv
        elif mv["type"] == "D":
            key = (mv["rack"], mv["well"])
            if mv["index"] in raw_D or mv.get("partner") is None:
                if mv["vol"] > 0:
                    tainted.add(key)
            elif last_A is not None and (last_A["rack"], last_A["well"]) in tainted and mv["vol"] > 0:
                tainted.add(key)
            last_A = None
        elif mv["type"] == "R":
            if (mv["rack"], mv["well"]) in tainted and mv["vol"] > 0:
                for w in mv["dst_wells"]:
                    tainted.add((mv["dst_rack"], w))
    return tainted
