"""C15 - well transforms are exact inverses and geometrically correct."""
import numpy as np
from hypothesis import strategies as st

from vf.core import Obs

PID = "C15"
RULE = (
    "case = one transform configuration plus the well arrays it is applied to: rotation of an RxC plate, shift of "
    "plate A into plate B at an anchor well (fitting or not), or a WellRandomizer(shape, seed, mode). Each is "
    "applied to the full 2-D plate array, its flattened list and a generated sub-array (2-D slice, arbitrary 2-D "
    "index array with repeats, 1-D list). Enumerated: all 384 shapes 1..16 x 1..24 for rotation, for the three "
    "randomisation modes and for shifts into a 16x24 plate at three anchors; generated: anchors, shapes of B, "
    "sub-arrays, seeds 0..10^6. Non-trivial = non-square shape and a 2-D or permuted argument; distinct by JSON."
)
ASSUMPTIONS = [
    "well ids are parsed by the harness: letter = row, number = column",
    "rotate_cw maps (r, c) of an RxC plate to (c, R-1-r) of the CxR plate",
    "WellShifter must raise ValueError iff rows_A + dr > rows_B or cols_A + dc > cols_B (anchor is always a well of B)",
    "scalar (0-d) arguments are not generated",
]
BUDGET = {"quick": (4, 250), "thorough": (16, 3000)}
ENUM_SPACE = "all 384 plate shapes 1..16 x 1..24: rotation of the full plate; randomizer in modes full/row/column with seeds 0 and 42; shift of the shape into a 16x24 plate at anchors A01, (16-R, 24-C) and one non-fitting anchor"
KNOWN_KINDS = {}
LETTERS = "ABCDEFGHIJKLMNOPQRSTUVWXYZ"


def wid(r, c):
    return f"{LETTERS[r]}{c + 1:02d}"


def rc(w):
    return LETTERS.index(w[0]), int(w[1:]) - 1


def enumerate_cases(tier):
    for R in range(1, 17):
        for C in range(1, 25):
            yield {"kind": "rot", "rows": R, "cols": C, "sub": {"type": "full"}}
            for mode in ("full", "row", "column"):
                yield {"kind": "rand", "rows": R, "cols": C, "seed": 42 if (R + C) % 2 else 0, "mode": mode, "sub": {"type": "full"}}
            yield {"kind": "shift", "A": [R, C], "B": [16, 24], "anchor": [0, 0], "sub": {"type": "full"}}
            yield {"kind": "shift", "A": [R, C], "B": [16, 24], "anchor": [16 - R, 24 - C], "sub": {"type": "full"}}
            if R > 1 or C > 1:
                yield {"kind": "shift", "A": [R, C], "B": [16, 24], "anchor": [min(15, 16 - R + 1), 24 - C] if R > 1 else [16 - R, min(23, 24 - C + 1)], "sub": {"type": "full"}}


@st.composite
def _sub(draw, R, C):
    t = draw(st.sampled_from(["slice", "index2d", "list", "full"]))
    if t == "slice":
        r0 = draw(st.integers(0, R - 1))
        r1 = draw(st.integers(r0 + 1, R))
        c0 = draw(st.integers(0, C - 1))
        c1 = draw(st.integers(c0 + 1, C))
        return {"type": "slice", "r0": r0, "r1": r1, "c0": c0, "c1": c1}
    if t == "index2d":
        h = draw(st.integers(1, 3))
        w = draw(st.integers(1, 4))
        cell = st.tuples(st.integers(0, R - 1), st.integers(0, C - 1)).map(list)
        return {"type": "index2d", "idx": draw(st.lists(st.lists(cell, min_size=w, max_size=w), min_size=h, max_size=h))}
    if t == "list":
        cell = st.tuples(st.integers(0, R - 1), st.integers(0, C - 1)).map(list)
        return {"type": "list", "idx": draw(st.lists(cell, min_size=1, max_size=8))}
    return {"type": "full"}


@st.composite
def _generated(draw):
    kind = draw(st.sampled_from(["rot", "shift", "rand"]))
    R = draw(st.integers(1, 16))
    C = draw(st.integers(1, 24))
    if kind == "rot":
        return {"kind": "rot", "rows": R, "cols": C, "sub": draw(_sub(R, C))}
    if kind == "rand":
        return {
            "kind": "rand",
            "rows": R,
            "cols": C,
            "seed": draw(st.integers(0, 10**6)),
            "mode": draw(st.sampled_from(["full", "row", "column"])),
            "sub": draw(_sub(R, C)),
        }
    RB = draw(st.integers(1, 16))
    CB = draw(st.integers(1, 24))
    anchor = [draw(st.integers(0, RB - 1)), draw(st.integers(0, CB - 1))]
    return {"kind": "shift", "A": [R, C], "B": [RB, CB], "anchor": anchor, "sub": draw(_sub(R, C))}


def strategy(tier):
    return _generated()


def _args(sub, R, C):
    """Returns the list of (description, array-like argument, expected shape, flat (r,c) list in C order)."""
    full = np.array([[wid(r, c) for c in range(C)] for r in range(R)])
    out = [("full2d", full, full.shape), ("flatlist", [wid(r, c) for r in range(R) for c in range(C)], (R * C,))]
    # the same wells in arrays that are not C-ordered in memory
    out.append(("fortran2d", np.asfortranarray(full), full.shape))
    out.append(("transposed", full.T, full.T.shape))
    t = sub["type"]
    if t == "slice":
        out.append(("slice", full[sub["r0"] : sub["r1"], sub["c0"] : sub["c1"]], (sub["r1"] - sub["r0"], sub["c1"] - sub["c0"])))
        out.append(("slice.T", full[sub["r0"] : sub["r1"], sub["c0"] : sub["c1"]].T, (sub["c1"] - sub["c0"], sub["r1"] - sub["r0"])))
    elif t == "index2d":
        arr = np.array([[wid(*cell) for cell in row] for row in sub["idx"]])
        out.append(("index2d", arr, arr.shape))
    elif t == "list":
        out.append(("list", [wid(*cell) for cell in sub["idx"]], (len(sub["idx"]),)))
    return out


def _flat(a):
    return [str(x) for x in np.asarray(a).flatten()]


def _apply(obs, what, fn, arg, shape):
    """Calls a transform; checks type/shape; returns the flat result or None."""
    res = fn(arg)
    obs.units += 1
    if not isinstance(res, np.ndarray):
        obs.bad("C15/type", f"{what}: returned {type(res).__name__}")
        return None
    if tuple(res.shape) != tuple(shape):
        obs.bad("C15/shape", f"{what}: result shape {res.shape}, argument shape {shape}")
        return None
    return res


def check_case(case) -> Obs:
    import robotools

    obs = Obs()
    obs.units = 0
    kind = case["kind"]
    obs.cls("kind:" + kind, "sub:" + case["sub"]["type"])

    if kind == "rot":
        R, C = case["rows"], case["cols"]
        rot = robotools.WellRotator((R, C))
        back = robotools.WellRotator((C, R))
        for name, arg, shape in _args(case["sub"], R, C):
            src = _flat(arg)
            cw = _apply(obs, f"rotate_cw {R}x{C} {name}", rot.rotate_cw, arg, shape)
            ccw = _apply(obs, f"rotate_ccw {R}x{C} {name}", rot.rotate_ccw, arg, shape)
            if cw is None or ccw is None:
                continue
            for w, x, y in zip(src, _flat(cw), _flat(ccw)):
                r, c = rc(w)
                if rc(x) != (c, R - 1 - r):
                    obs.bad("C15/cw-geometry", f"{R}x{C}: rotate_cw({w}) = {x}, expected {wid(c, R - 1 - r)}")
                    break
                if rc(y) != (C - 1 - c, r):
                    obs.bad("C15/ccw-geometry", f"{R}x{C}: rotate_ccw({w}) = {y}, expected {wid(C - 1 - c, r)}")
                    break
            # inverses on the rotated plate (shape C x R)
            r1 = _apply(obs, "ccw(cw)", back.rotate_ccw, cw, shape)
            r2 = _apply(obs, "cw(ccw)", back.rotate_cw, ccw, shape)
            if r1 is not None and _flat(r1) != src:
                obs.bad("C15/rot-inverse", f"{R}x{C} {name}: rotate_ccw(rotate_cw(x)) != x")
            if r2 is not None and _flat(r2) != src:
                obs.bad("C15/rot-inverse", f"{R}x{C} {name}: rotate_cw(rotate_ccw(x)) != x")
            # four clockwise rotations
            x = arg
            rots = [rot, back, rot, back]
            ok = True
            for k in range(4):
                x = _apply(obs, f"cw^{k + 1}", rots[k].rotate_cw, x, shape)
                if x is None:
                    ok = False
                    break
            if ok and _flat(x) != src:
                obs.bad("C15/four-rotations", f"{R}x{C} {name}: four clockwise rotations are not the identity")
        if len(set(_flat(rot.rotate_cw(np.array([[wid(r, c) for c in range(C)] for r in range(R)]))))) != R * C:
            obs.bad("C15/rot-bijection", f"{R}x{C}: rotate_cw is not injective on the plate")
        obs.nontrivial = R != C
        return obs

    if kind == "shift":
        (RA, CA), (RB, CB) = case["A"], case["B"]
        dr, dc = case["anchor"]
        fits = RA + dr <= RB and CA + dc <= CB
        obs.cls("fits" if fits else "does-not-fit")
        try:
            sh = robotools.WellShifter((RA, CA), (RB, CB), wid(dr, dc))
        except ValueError:
            if fits:
                obs.bad("C15/shift-refused", f"WellShifter({RA}x{CA} -> {RB}x{CB} at {wid(dr, dc)}) raised although the plate fits")
            obs.nontrivial = not fits
            return obs
        if not fits:
            obs.bad("C15/shift-accepted", f"WellShifter({RA}x{CA} -> {RB}x{CB} at {wid(dr, dc)}) accepted although the plate does not fit")
            return obs
        for name, arg, shape in _args(case["sub"], RA, CA):
            src = _flat(arg)
            res = _apply(obs, f"shift {name}", sh.shift, arg, shape)
            if res is None:
                continue
            for w, x in zip(src, _flat(res)):
                r, c = rc(w)
                if rc(x) != (r + dr, c + dc):
                    obs.bad("C15/shift-offset", f"{RA}x{CA}->{RB}x{CB} anchor {wid(dr, dc)}: shift({w}) = {x}, expected {wid(r + dr, c + dc)}")
                    break
            un = _apply(obs, f"unshift {name}", sh.unshift, res, shape)
            if un is not None and _flat(un) != src:
                obs.bad("C15/shift-inverse", f"unshift(shift(x)) != x for {name}")
            if un is not None:
                again = _apply(obs, f"shift(unshift) {name}", sh.shift, un, shape)
                if again is not None and _flat(again) != _flat(res):
                    obs.bad("C15/shift-inverse", f"shift(unshift(y)) != y for {name}")
        obs.nontrivial = (RA != CA) and (dr + dc > 0)
        return obs

    # randomizer
    R, C, seed, mode = case["rows"], case["cols"], case["seed"], case["mode"]
    obs.cls("mode:" + mode)
    np.random.seed(12345)
    # other randomizers of other plates/seeds live in the same process, created before and after the one under test
    other_a = robotools.WellRandomizer((min(R + 1, 26), C + 2), seed + 1, mode=mode)
    rnd = robotools.WellRandomizer((R, C), seed, mode=mode)
    other_b = robotools.WellRandomizer((max(1, R - 1), C), seed + 7, mode=mode)
    other_b.randomize_wells([wid(0, 0)])
    other_a.derandomize_wells([wid(0, 0)])
    np.random.seed(999)
    np.random.rand(7)
    rnd2 = robotools.WellRandomizer((R, C), seed, mode=mode)
    allwells = [wid(r, c) for r in range(R) for c in range(C)]
    img = _apply(obs, "randomize all", rnd.randomize_wells, allwells, (R * C,))
    if img is None:
        return obs
    img = _flat(img)
    if sorted(img) != sorted(allwells):
        obs.bad("C15/rand-permutation", f"{R}x{C} seed={seed} mode={mode}: the image of the plate is not a permutation of the plate")
    img2 = _flat(rnd2.randomize_wells(allwells))
    if img2 != img:
        obs.bad("C15/rand-seed", f"{R}x{C} seed={seed} mode={mode}: two randomizers with the same seed disagree")
    for w, x in zip(allwells, img):
        if x is None or x == "None":
            obs.bad("C15/rand-none", f"well {w} maps to None")
            break
        if mode == "row" and x[0] != w[0]:
            obs.bad("C15/rand-row", f"{R}x{C} seed={seed}: row mode maps {w} to {x}")
            break
        if mode == "column" and x[1:] != w[1:]:
            obs.bad("C15/rand-column", f"{R}x{C} seed={seed}: column mode maps {w} to {x}")
            break
    # the mapping is determined by the seed alone - not by the order in which wells are asked for
    rnd3 = robotools.WellRandomizer((R, C), seed, mode=mode)
    rev = list(reversed(allwells))
    img3 = _flat(rnd3.randomize_wells(rev))
    if dict(zip(rev, img3)) != dict(zip(allwells, img)):
        obs.bad("C15/rand-query-order", f"{R}x{C} seed={seed} mode={mode}: a randomizer asked for the wells in reverse order gives another mapping")
    rnd4 = robotools.WellRandomizer((R, C), seed, mode=mode)
    back4 = _flat(rnd4.derandomize_wells(list(reversed(img))))
    if back4 != rev:
        obs.bad("C15/rand-query-order", f"{R}x{C} seed={seed} mode={mode}: a fresh randomizer with the same seed does not invert another one's randomisation")
    # a copy of the randomizer (copy, deepcopy, pickle round trip) is the same mapping
    import copy
    import pickle

    for how, fn in (("copy.copy", copy.copy), ("copy.deepcopy", copy.deepcopy), ("pickle", lambda o: pickle.loads(pickle.dumps(o)))):
        try:
            twin = fn(rnd)
            img_t = _flat(twin.randomize_wells(allwells))
            back_t = _flat(twin.derandomize_wells(img))
        except Exception as e:  # noqa
            obs.bad("C15/rand-copy", f"{R}x{C} seed={seed} mode={mode}: a {how} of the randomizer raised {type(e).__name__}: {e}")
            continue
        if img_t != img or back_t != allwells:
            obs.bad("C15/rand-copy", f"{R}x{C} seed={seed} mode={mode}: a {how} of the randomizer maps the plate differently / does not invert the original")
    lookup = dict(zip(allwells, img))
    for name, arg, shape in _args(case["sub"], R, C):
        src = _flat(arg)
        res = _apply(obs, f"randomize_wells {name}", rnd.randomize_wells, arg, shape)
        if res is None:
            continue
        if _flat(res) != [lookup[w] for w in src]:
            obs.bad("C15/rand-consistency", f"{name}: randomize_wells differs between argument shapes")
        de = _apply(obs, f"derandomize_wells {name}", rnd.derandomize_wells, res, shape)
        if de is not None and _flat(de) != src:
            obs.bad("C15/rand-inverse", f"{R}x{C} seed={seed} mode={mode} {name}: derandomize(randomize(x)) != x")
        de2 = _apply(obs, f"derandomize_wells(x) {name}", rnd.derandomize_wells, arg, shape)
        if de2 is not None:
            re2 = _apply(obs, f"randomize(derandomize) {name}", rnd.randomize_wells, de2, shape)
            if re2 is not None and _flat(re2) != src:
                obs.bad("C15/rand-inverse", f"{R}x{C} seed={seed} mode={mode} {name}: randomize(derandomize(x)) != x")
    obs.nontrivial = R != C
    return obs
