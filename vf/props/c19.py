"""C19 - get_trough_wells cycles through the given wells and returns exactly n."""
import numpy as np
from hypothesis import strategies as st

from vf.core import Obs

PID = "C19"
RULE = (
    "case = (n, collection of well ids in one of the representations list/tuple/1-D array/2-D array/column slice, "
    "possibly with repeated wells, or an invalid n / empty collection incl. empty 2-D selections; each valid call is repeated after the caller modified the first result); enumerated: n in 0..260 (quick: 0..80) x len 1..26 x 5 representations; "
    "generated: 2-D trough grids up to 26x6 with n up to 2000. Non-trivial = valid call with n > number of wells "
    "(the list has to wrap around); distinct by canonical JSON of the case."
)
ASSUMPTIONS = [
    "oracle: result[i] == F[i mod len(F)] where F is the harness's own column-major flattening (explicit loops)",
    "invalid n (negative, float, str, None) and empty collections must raise (any exception type)",
    "bool and numpy integer n are not generated (undetermined by the property)",
]
BUDGET = {"quick": (1, 400), "thorough": (16, 1500)}
ENUM_SPACE = {
    "quick": "n in 0..80 x len 1..26 x {list, tuple, 1-D array, 2-D (k x m) array, column slice} + invalid n/empty",
    "thorough": "n in 0..260 x len 1..26 x {list, tuple, 1-D array, 2-D (k x m) array, column slice} + invalid n/empty",
}
KNOWN_KINDS = {}

LETTERS = "ABCDEFGHIJKLMNOPQRSTUVWXYZ"


def _grid(rows, cols):
    return [[f"{LETTERS[r]}{c + 1:02d}" for c in range(cols)] for r in range(rows)]


def enumerate_cases(tier):
    nmax = 80 if tier == "quick" else 260
    for length in range(1, 27):
        for rep in ("list", "tuple", "array1d", "grid2d", "colslice"):
            if rep == "grid2d":
                # factor the length into rows x cols (largest divisor <= 8 as number of columns)
                cols = max(d for d in range(1, 9) if length % d == 0)
                shape = (length // cols, cols)
            elif rep == "colslice":
                shape = (length, 3)
            else:
                shape = (length, 1)
            ns = list(range(0, nmax + 1))
            yield {"rep": rep, "rows": shape[0], "cols": shape[1], "ns": ns}
    # collections in which a well occurs several times (the cycle length is len(wells), not the number of distinct wells)
    for pattern in ([0, 1, 0, 2], [0, 1, 1, 2], [0, 0], [2, 1, 0, 1, 2], [0, 1, 2, 0], [1, 0, 0, 0, 1, 1]):
        yield {"rep": "list", "rows": 3, "cols": 1, "ns": list(range(0, 20)), "pattern": pattern}
        yield {"rep": "array1d", "rows": 3, "cols": 1, "ns": list(range(0, 20)), "pattern": pattern}
    # few wells, many tips (several 384-well plates filled from a single-well trough)
    for length, ns in ((1, [1536, 3000]), (2, [6144]), (3, [4000])):
        yield {"rep": "list", "rows": length, "cols": 1, "ns": ns}
        yield {"rep": "array1d", "rows": length, "cols": 1, "ns": ns}
    for bad in (-1, -5, 1.0, 2.5, "2", None):
        yield {"rep": "list", "rows": 3, "cols": 1, "ns": [], "bad_n": [bad if not isinstance(bad, float) else {"float": bad}]}
    yield {"rep": "empty_list", "rows": 0, "cols": 0, "ns": [0, 1, 5]}
    yield {"rep": "empty_array", "rows": 0, "cols": 0, "ns": [0, 1, 5]}
    # empty 2-D selections such as trough.wells[:, 3:] of a 3-column trough, or a column mask that selects nothing
    for shape in ((1, 0), (3, 0), (8, 0), (0, 1), (0, 3)):
        yield {"rep": "empty_2d", "rows": shape[0], "cols": shape[1], "ns": [0, 1, 5]}


def strategy(tier):
    return st.fixed_dictionaries(
        {
            "rep": st.sampled_from(["grid2d", "colslice", "list", "array1d", "tuple"]),
            "rows": st.integers(1, 26),
            "cols": st.integers(1, 6),
            "ns": st.lists(st.one_of(st.integers(0, 60), st.integers(0, 2000)), min_size=1, max_size=4),
        },
        optional={"pattern": st.lists(st.integers(0, 7), min_size=1, max_size=8)},
    )


def _build(case):
    """Returns (argument for get_trough_wells, expected column-major flat list)."""
    rep, rows, cols = case["rep"], case["rows"], case["cols"]
    if rep == "empty_list":
        return [], []
    if rep == "empty_array":
        return np.array([], dtype=str), []
    if rep == "empty_2d":
        return np.array(_grid(max(rows, 1), max(cols, 1)))[:rows, :cols], []
    g = _grid(rows, cols)
    if rep == "grid2d":
        flat = [g[r][c] for c in range(cols) for r in range(rows)]
        return np.array(g), flat
    if rep == "colslice":
        c = cols - 1
        flat = [g[r][c] for r in range(rows)]
        return np.array(g)[:, c], flat
    flat = [g[r][0] for r in range(rows)]
    if case.get("pattern") and rep in ("list", "tuple", "array1d"):
        flat = [flat[i % len(flat)] for i in case["pattern"]]
    if rep == "list":
        return list(flat), flat
    if rep == "tuple":
        return tuple(flat), flat
    if rep == "array1d":
        return np.array(flat), flat
    raise ValueError(rep)


def check_case(case) -> Obs:
    import robotools

    obs = Obs()
    arg, flat = _build(case)
    obs.cls("rep:" + case["rep"])
    obs.units = 0
    for bad in case.get("bad_n", []):
        n = bad["float"] if isinstance(bad, dict) else bad
        obs.units += 1
        try:
            res = robotools.get_trough_wells(n, arg)
        except Exception:
            obs.cls("rejected-invalid-n")
            obs.nontrivial = True
        else:
            obs.bad("C19/invalid-n-accepted", f"get_trough_wells({n!r}, {len(flat)} wells) returned {res!r}")
    for n in case["ns"]:
        obs.units += 1
        if not flat:
            try:
                res = robotools.get_trough_wells(n, arg)
            except Exception:
                obs.cls("rejected-empty")
                obs.nontrivial = True
            else:
                obs.bad("C19/empty-accepted", f"get_trough_wells({n}, empty) returned {res!r}")
            continue
        res = robotools.get_trough_wells(n, arg)
        # the same call with the documented parameter names as keywords
        if (n + len(flat)) % 3 == 0:
            try:
                res_kw = robotools.get_trough_wells(n=n, trough_wells=_build(case)[0])
            except Exception as e:  # noqa
                obs.bad("C19/keyword-call", f"get_trough_wells(n={n}, trough_wells=<{case['rep']} of {len(flat)}>) raised {type(e).__name__}: {e}")
            else:
                if [str(x) for x in res_kw] != [str(x) for x in res]:
                    obs.bad("C19/keyword-call", f"n={n} rep={case['rep']}: the call with keywords returns {list(map(str, res_kw))[:10]}, the positional one {list(map(str, res))[:10]}")
            obs.cls("keyword-call")
        if not isinstance(res, list):
            obs.bad("C19/type", f"result is {type(res).__name__}, not list")
            res = list(res)
        if len(res) != n:
            obs.bad("C19/length", f"n={n} len(wells)={len(flat)} rep={case['rep']}: got {len(res)} wells")
        exp = [flat[i % len(flat)] for i in range(n)]
        if [str(x) for x in res] != exp:
            obs.bad("C19/content", f"n={n} len={len(flat)} rep={case['rep']}: got {list(map(str, res))[:12]} expected {exp[:12]}")
        # every call stands for itself: what the caller does with an earlier result does not matter
        if isinstance(res, list) and res:
            res.reverse()
            res.pop()
            again = robotools.get_trough_wells(n, _build(case)[0])
            if [str(x) for x in again] != exp:
                obs.bad("C19/second-call", f"n={n} len={len(flat)} rep={case['rep']}: after the caller changed the first result, an equal call returned {list(map(str, again))[:12]} expected {exp[:12]}")
            obs.cls("called-again")
        if n > len(flat):
            obs.nontrivial = True
            obs.cls("wraps")
        if n and n % len(flat) == 0:
            obs.cls("exact-multiple")
        if n == 0:
            obs.cls("n=0")
        if len(set(flat)) < len(flat):
            obs.cls("repeated-wells")
    return obs


def extra_campaign(tier, seed, shard, nshards, st, known):
    """Thorough tier: a coverage-guided libFuzzer campaign (atheris) over byte strings decoded into cases of this module."""
    from vf.fuzzrun import campaign

    campaign(PID, tier, seed, shard, nshards, st, known, runs=20000, seeds_corpus=[b"\x02\x05\x01\x02\x40\x00"])
