"""C18 - column partitioning keeps triples intact, groups by column and orders by row."""
import itertools

from hypothesis import strategies as st

from vf.core import Obs

PID = "C18"
RULE = (
    "case = (mode, list of (source well, destination well, volume) triples) for partition_by_column, or a "
    "(source kind, destination kind, mode name) tuple for optimize_partition_by. Enumerated: all triple lists of "
    "length <= 3 (quick: <= 2) over a 2x3 well grid x both modes, and the full optimize_partition_by table; "
    "generated: lists of length 0..12 over rows A..Z x columns 1..99 with forced repeats/ties, int and float volumes. "
    "Non-trivial = >= 2 triples whose partition-side order differs from the (column,row)-sorted order and whose "
    "two well lists differ (or an optimize_partition_by / invalid-mode case); distinct by canonical JSON."
)
ASSUMPTIONS = [
    "output is valid iff: same multiset of triples, one partition-side column per group, group columns strictly ascending (numeric), partition-side rows non-decreasing within a group",
    "the order among triples with equal partition-side well is not constrained",
    "partition_by_column with an invalid mode and an EMPTY list is undetermined (nothing to partition); with a non-empty list it must raise ValueError",
    "columns 1..99 (as the property states); volumes compared by value",
]
BUDGET = {"quick": (4, 600), "thorough": (16, 20000)}
ENUM_SPACE = {
    "quick": "all triple lists of length <= 2 over wells {A,B}x{01,02,03} (distinct volumes per slot) x {source,destination}; optimize_partition_by: 4 labware combinations x {auto,source,destination} + 8 invalid names, and x 5 plate / 4 trough geometries (incl. 1x1, single-row, single-column)",
    "thorough": "all triple lists of length <= 3 over wells {A,B}x{01,02,03} (distinct volumes per slot) x {source,destination}; optimize_partition_by: 4 labware combinations x {auto,source,destination} + 8 invalid names, and x 5 plate / 4 trough geometries (incl. 1x1, single-row, single-column)",
}
KNOWN_KINDS = {}

LETTERS = "ABCDEFGHIJKLMNOPQRSTUVWXYZ"
INVALID_MODES = ["", "Source", "dest", "AUTO", "src", "destination ", "row", "none"]


def enumerate_cases(tier):
    wells = [f"{r}{c:02d}" for r in "AB" for c in (1, 2, 3)]
    pairs = list(itertools.product(wells, wells))
    maxlen = 2 if tier == "quick" else 3
    for mode in ("source", "destination"):
        yield {"kind": "part", "mode": mode, "triples": []}
        for n in range(1, maxlen + 1):
            for combo in itertools.product(pairs, repeat=n):
                yield {"kind": "part", "mode": mode, "triples": [[s, d, 10 * (i + 1)] for i, (s, d) in enumerate(combo)]}
    geoms = {"plate": [[2, 3], [1, 1], [1, 8], [8, 1], [8, 12]], "trough": [[4, 2], [1, 1], [1, 3], [8, 1]]}
    for src in ("plate", "trough"):
        for dst in ("plate", "trough"):
            for mode in ["auto", "source", "destination"] + INVALID_MODES:
                yield {"kind": "opt", "src": src, "dst": dst, "mode": mode}
                if src == dst:
                    yield {"kind": "opt", "src": src, "dst": dst, "mode": mode, "same": True}
            for gs in geoms[src]:
                for gd in geoms[dst]:
                    for mode in ("auto", "source", "destination"):
                        yield {"kind": "opt", "src": src, "dst": dst, "mode": mode, "gsrc": gs, "gdst": gd}
    for mode in INVALID_MODES:
        yield {"kind": "part", "mode": mode, "triples": [["A01", "B02", 5]]}


def _triples():
    # small pools force repeated wells, equal keys and ties
    def build(nrows, cols):
        well = st.tuples(st.integers(0, nrows - 1), st.sampled_from(cols)).map(lambda rc: f"{LETTERS[rc[0]]}{rc[1]:02d}")
        vol = st.one_of(st.integers(0, 2000), st.floats(0, 2000, allow_nan=False).map(lambda x: round(x, 3)))
        return st.one_of(st.lists(st.tuples(well, well, vol).map(list), min_size=0, max_size=12), st.lists(st.tuples(well, well, vol).map(list), min_size=13, max_size=48))

    return st.tuples(st.sampled_from([1, 2, 3, 8, 26]), st.lists(st.integers(1, 99), min_size=1, max_size=5, unique=True)).flatmap(lambda a: build(*a))


def strategy(tier):
    return st.fixed_dictionaries({"kind": st.just("part"), "mode": st.sampled_from(["source", "destination"]), "triples": _triples()})


def _col(w):
    return int(w[1:])


def check_case(case) -> Obs:
    from robotools.worklists.utils import optimize_partition_by, partition_by_column

    obs = Obs()
    if case["kind"] == "opt":
        import robotools

        def mk(kind, name, geom):
            r, c = geom or ([4, 2] if kind == "trough" else [2, 3])
            if kind == "trough":
                return robotools.Trough(name, r, c, min_volume=0, max_volume=100)
            return robotools.Labware(name, r, c, min_volume=0, max_volume=100)

        src, dst = mk(case["src"], "S", case.get("gsrc")), mk(case["dst"], "D", case.get("gdst"))
        if case.get("same") and case["src"] == case["dst"]:
            dst = src  # one labware object on both sides (redistribution within a plate)
            obs.cls("opt-same-object")
        mode = case["mode"]
        obs.cls("opt")
        try:
            res = optimize_partition_by(src, dst, mode, "lbl")
            # the label is only used for messages: without one (None, or not given) the answer is the same
            if mode in ("auto", "source", "destination"):
                for alt, call in (("label=None", lambda: optimize_partition_by(src, dst, mode, None)), ("no label", lambda: optimize_partition_by(src, dst, mode))):
                    try:
                        res_alt = call()
                    except Exception as e:  # noqa
                        obs.bad("C18/opt-valid-rejected", f"optimize_partition_by({case['src']},{case['dst']},{mode!r}) with {alt} raised {type(e).__name__}: {e}")
                        return obs
                    if res_alt != res:
                        obs.bad("C18/opt-choice", f"optimize_partition_by({case['src']},{case['dst']},{mode!r}) with {alt} = {res_alt!r}, with a label {res!r}")
                        return obs
        except ValueError:
            if mode in ("auto", "source", "destination"):
                obs.bad("C18/opt-valid-rejected", f"optimize_partition_by({case['src']},{case['dst']},{mode!r}) raised ValueError")
            else:
                obs.nontrivial = True
            return obs
        if mode not in ("auto", "source", "destination"):
            obs.bad("C18/opt-invalid-accepted", f"mode name {mode!r} accepted, returned {res!r}")
            return obs
        if mode == "auto":
            exp = "destination" if (case["src"] == "trough" and case["dst"] != "trough") else "source"
        else:
            exp = mode
        if res != exp:
            obs.bad("C18/opt-choice", f"optimize_partition_by({case['src']},{case['dst']},{mode!r}) = {res!r}, expected {exp!r}")
        obs.nontrivial = True
        return obs

    mode = case["mode"]
    triples = [(t[0], t[1], t[2]) for t in case["triples"]]
    srcs = [t[0] for t in triples]
    dsts = [t[1] for t in triples]
    vols = [t[2] for t in triples]
    if mode not in ("source", "destination"):
        obs.cls("part-invalid-mode")
        try:
            res = partition_by_column(srcs, dsts, vols, mode)
        except ValueError:
            obs.nontrivial = True
            return obs
        if triples:
            obs.bad("C18/invalid-mode-accepted", f"partition_by_column(..., {mode!r}) returned {res!r}")
        return obs

    # the three parallel arguments are Iterables: lists, tuples, numpy arrays, one-shot iterators; volumes also as numpy
    # scalars of single precision (the triples that come back must be the ones that went in)
    form = (len(triples) + sum(len(str(t[2])) for t in triples)) % 5
    expect_vols = list(vols)
    a_s, a_d, a_v = srcs, dsts, vols
    if triples and form == 1:
        a_s, a_d, a_v = tuple(srcs), tuple(dsts), tuple(vols)
    elif triples and form == 2:
        import numpy as np

        a_s, a_d, a_v = np.array(srcs), np.array(dsts), np.array(vols, dtype=float)
    elif triples and form == 3:
        a_s, a_d, a_v = iter(list(srcs)), iter(list(dsts)), iter(list(vols))
    elif triples and form == 4:
        import numpy as np

        a_v = [np.float32(v) for v in vols]
        expect_vols = [float(v) for v in a_v]
    obs.cls("arguments-as:" + ["lists", "tuples", "arrays", "iterators", "float32-volumes"][form if triples else 0])
    triples = [(s_, d_, v_) for s_, d_, v_ in zip(srcs, dsts, expect_vols)]
    # the mode name as a string built at run time (read from a file, a command line, ...), not the literal of the source code
    mode_arg = "".join(list(mode))
    groups = partition_by_column(a_s, a_d, a_v, mode_arg)
    if len(triples) >= 17:
        obs.cls("17-or-more-triples")
    side = 0 if mode == "source" else 1
    out = []
    prev_col = None
    for g in groups:
        gs, gd, gv = g
        if not (len(gs) == len(gd) == len(gv)):
            obs.bad("C18/torn", f"group lists of unequal length: {g!r}")
            continue
        if len(gs) == 0:
            obs.bad("C18/empty-group", "an empty group was returned")
            continue
        rows = []
        cols = set()
        for s, d, v in zip(gs, gd, gv):
            s, d, v = str(s), str(d), float(v)
            out.append((s, d, v))
            key = (s, d)[side]
            rows.append(key[0])
            cols.add(_col(key))
        if len(cols) != 1:
            obs.bad("C18/mixed-columns", f"group holds several {mode} columns {sorted(cols)}")
        col = min(cols)
        if prev_col is not None and not col > prev_col:
            obs.bad("C18/column-order", f"group column {col} follows {prev_col}")
        prev_col = col
        if rows != sorted(rows):
            obs.bad("C18/row-order", f"rows within the group of column {col} not ascending: {rows}")
    exp = sorted((s, d, float(v)) for s, d, v in triples)
    if sorted(out) != exp:
        obs.bad("C18/multiset", f"mode={mode}: output triples {sorted(out)[:8]} != input {exp[:8]}")
    # classification
    keys = [t[side] for t in triples]
    order_changes = keys != sorted(keys, key=lambda w: (_col(w), w[0]))
    if len(triples) >= 2 and order_changes and srcs != dsts:
        obs.cls("reordered")
        obs.nontrivial = True
    if len(set(keys)) < len(keys):
        obs.cls("ties")
    if len(groups) > 1:
        obs.cls("multi-group")
    if not triples:
        obs.cls("empty")
    return obs


def extra_campaign(tier, seed, shard, nshards, st, known):
    """Thorough tier: a coverage-guided libFuzzer campaign (atheris) over byte strings decoded into cases of this module."""
    from vf.fuzzrun import campaign

    campaign(PID, tier, seed, shard, nshards, st, known, runs=20000, seeds_corpus=[b"\x02\x03\x05\x07\x04\x00\x01\x01\x00\x10\x00\x00"])
