"""C05 - composition tracking equals ideal volumetric mixing and conserves components."""
import math
from fractions import Fraction

import numpy as np
from hypothesis import strategies as st

from vf import gwl
from vf.core import Obs
from vf.lab import LETTERS, lab_spec, real_idx, wid
from vf.prog import op_evo, ops_list, World, execute, expect_sequential, expect_transfer, flat_pairs, known_comp, model_apply, op_direct, op_distribute, op_transfer, resolve, trough_indices, vs_ok

PID = "C05"
RULE = (
    "case = 1..3 labware with every naming configuration (explicit, partial, shared names, defaults; plates, "
    "multi-column troughs, single-well labware; min_volume mostly 0 so wells can be emptied) + device + a program "
    "of 1..12 operations: transfer (also within one labware and from a well into itself, splits, serial chains over "
    "several calls), distribute, dispense with a KNOWN composition (fractions k/n, new and existing component names), "
    "aspirate, zero-volume steps, wells emptied and refilled, and dispenses that are refused for overflow (the well must keep volume and composition). A transfer call in which a well is both source and "
    "destination of different triples is modelled in the order of its emitted A/D pairs (grid regime, exact record "
    "volumes) or reduced to its first triple (float regime). Non-trivial = >= 2 mixing events and a well "
    "with >= 2 components at the end; distinct by canonical JSON."
)
ASSUMPTIONS = [
    "model: amounts per component name in rationals; names of initial contents are read from Labware.composition at construction, the naming RULE is checked separately for multi-row plates, multi-column Troughs and single-well labware (1xN plates not asserted)",
    "liquid of unknown composition is never introduced",
    "tolerances: fractions 1e-9 absolute plus 1e-12 x (largest volume handled) / (volume of the well) for nearly empty wells, sums 1e-9, conservation 1e-9 relative",
]
BUDGET = {"quick": (4, 300), "thorough": (16, 4000)}
KNOWN_KINDS = {}
STRATA = ["transfer", "distribute", "dispense", "mixed"]
REQUIRED_CLASSES = ["op:transfer", "op:distribute", "op:dispense", "op:aspirate", "chain>=2", "same-labware", "emptied-and-refilled", "zero-volume-into-empty", "shared-names", "self-transfer", "refused-dispense", "dependent-transfer-by-records", "column-chain-in-one-call"]


ENUM_SPACE = "naming rule at construction: plates 1..16 rows x 1..24 columns and Troughs 1..8 virtual rows x 1..24 columns, all wells filled / checkerboard filled, default names and partial explicit names"


def enumerate_cases(tier):
    """Naming rule over all geometries (the mixing programs use small labware only)."""
    for rows in range(1, 17):
        for cols in range(1, 25):
            for pattern in ("full", "checker"):
                init = [[10.0 if (pattern == "full" or (r + c) % 2 == 0) else 0.0 for c in range(cols)] for r in range(rows)]
                names = None
                if pattern == "checker" and rows * cols > 2:
                    names = {wid(0, 0): "custom"}
                yield {"naming": {"kind": "plate", "name": "Plate-7", "rows": rows, "cols": cols, "min": 0.0, "max": 100.0, "init": init, "names": names}}
    for rows, cols in ((2, 2), (3, 4), (8, 12)):
        init = [[10.0] * cols for _ in range(rows)]
        yield {"naming": {"kind": "plate", "name": "Plate-7", "rows": rows, "cols": cols, "min": 0.0, "max": 100.0, "init": init, "names": {wid(0, 0): "Plate-7." + wid(1, 0)}}}
        yield {"naming": {"kind": "plate", "name": "Plate-7", "rows": rows, "cols": cols, "min": 0.0, "max": 100.0, "init": init, "names": {wid(1, 1): "Plate-7." + wid(0, 0), wid(0, 1): "Plate-7." + wid(0, 0)}}}
    for vrows in (1, 2, 8):
        for cols in range(1, 25):
            for pattern in ("full", "checker"):
                init = [10.0 if (pattern == "full" or c % 2 == 0) else 0.0 for c in range(cols)]
                colnames = None
                if pattern == "checker" and cols > 2:
                    colnames = ["custom"] + [None] * (cols - 1)
                yield {"naming": {"kind": "trough", "name": "Trough.1", "vrows": vrows, "cols": cols, "min": 0.0, "max": 100.0, "init": init, "colnames": colnames}}


@st.composite
def _case(draw, focus, tier="quick"):
    q = draw(st.sampled_from([0.01, 0.01, None]))
    n = draw(st.integers(1, 3))
    names = ["Alpha 70%", "Beta plate ", " Gamma_3"]
    labs = []
    for i in range(n):
        kind = draw(st.sampled_from(["plate", "trough"])) if i == 0 else draw(st.sampled_from(["plate", "plate", "trough"]))
        if i == 0 and focus == "distribute":
            kind = "trough"
        labs.append(
            draw(
                lab_spec(
                    names[i],
                    kind=kind,
                    max_rows=6,
                    max_cols=6 if kind == "plate" else 3,
                    regime=draw(st.sampled_from(["roomy", "tight"])),
                    grid=bool(q),
                    q=q or 0.01,
                    min_zero=draw(st.sampled_from([True, True, None])),
                    pos=(10 + i, 1 + i),
                )
            )
        )
    vs = st.one_of(vs_ok(q), st.fixed_dictionaries({"f": st.sampled_from([1.0, 0.5, 0.25])}))
    # "chain": draw the liquid from a well that was fed earlier; "refill": deliver into a well that was emptied earlier
    t = st.tuples(op_transfer(vs, max_n=4), st.one_of(st.none(), st.integers(0, 20)), st.one_of(st.none(), st.integers(0, 20)), st.one_of(st.none(), st.none(), st.integers(0, 20))).map(
        lambda x: dict(x[0], chain=x[1], refill=x[2], colchain=x[3])
    )
    d = op_distribute(vs, max_n=4)
    dc = op_direct(vs, kinds=("dispense",), comps=True, max_n=4).map(lambda o: dict(o, comps=o["comps"] or 1))
    # a dispense of known composition that overflows its (single) well: must be refused and leave the well as it was
    refused = st.fixed_dictionaries({"op": st.just("dispense"), "lw": st.integers(0, 2), "wells": st.fixed_dictionaries({"t": st.just("scalar"), "w": st.tuples(st.integers(0, 15), st.integers(0, 23)).map(list)}), "vols": st.just({"t": "scalar", "v": {"over": 10.0}}), "label": st.none(), "comps": st.integers(1, 5), "refused": st.just(True)})
    a = op_direct(vs, kinds=("aspirate",), max_n=4)
    # the EVO's multi-tip dispense with one known composition per well (a plain multi-well dispense on the Fluent)
    ed = op_evo(vs, min_tips=2).map(lambda o: dict(o, op="evo_dispense", comps=1 + o["col"] % 5))
    anyop = st.one_of(t, t, d, dc, a, refused, ed)
    fop = {"transfer": t, "distribute": d, "dispense": dc, "mixed": anyop}[focus]
    return {"labs": labs, "device": draw(st.sampled_from(["evo", "fluent"])), "q": q, "M": draw(st.sampled_from([950, 50, 7, 33.3])), "ops": draw(ops_list(st.one_of(fop, anyop), 1, 12 if tier == "quick" else 20))}


def strategy(tier, stratum):
    return _case(stratum, tier)


def _naming(obs, spec, lw):
    comp = lw.composition
    vols = lw.volumes
    names_of = {}
    for idx in np.ndindex(vols.shape):
        present = [(k, float(arr[idx])) for k, arr in comp.items() if arr[idx] != 0]
        if vols[idx] > 0:
            if len(present) != 1 or present[0][1] != 1.0:
                obs.bad("C05/initial-not-one-component", f"{spec['name']}{idx}: initially filled well has components {present}")
            else:
                names_of[idx] = present[0][0]
        elif present:
            obs.bad("C05/initial-empty-has-component", f"{spec['name']}{idx}: initially empty well has components {present}")
    explicit = {}
    if spec["kind"] == "plate" and spec.get("names"):
        explicit = {tuple(real_idx(spec, [LETTERS.index(w[0]), int(w[1:]) - 1])): n for w, n in spec["names"].items() if n is not None}
    if spec["kind"] == "trough" and spec.get("colnames"):
        explicit = {(0, c): n for c, n in enumerate(spec["colnames"]) if n is not None}
    for idx, nm in names_of.items():
        if idx in explicit and nm != explicit[idx]:
            obs.bad("C05/explicit-name", f"{spec['name']}{idx}: user-given name {explicit[idx]!r} but component {nm!r}")
    defaults = {idx: nm for idx, nm in names_of.items() if idx not in explicit}
    nreal = vols.size
    if nreal == 1 and not spec.get("legacy"):
        for idx, nm in defaults.items():
            if nm != spec["name"]:
                obs.bad("C05/single-well-default", f"single-well labware {spec['name']!r}: default component name {nm!r}")
    elif (spec["kind"] == "plate" and spec["rows"] > 1) or (spec["kind"] == "trough" and spec["cols"] > 1 and not spec.get("legacy")):
        if len(set(defaults.values())) != len(defaults):
            obs.bad("C05/default-names-collide", f"{spec['name']}: default component names are not pairwise distinct: {sorted(map(repr, defaults.values()))[:6]}")
    if explicit and len(set(explicit.values())) < len(explicit):
        obs.cls("shared-names")


def _totals(world):
    tot = {}
    for lw in world.labs:
        v = lw.volumes
        for k, arr in lw.composition.items():
            tot[k] = tot.get(k, 0.0) + float(np.sum(v * arr))
    return tot


def check_case(case) -> Obs:
    obs = Obs()
    obs.units = 0
    if "naming" in case:
        from vf.lab import build

        spec = case["naming"]
        _naming(obs, spec, build(spec))
        obs.units = 1
        obs.cls("naming-only")
        obs.nontrivial = (spec["kind"] == "plate" and spec["rows"] > 1) or (spec["kind"] == "trough" and spec["cols"] > 1)
        return obs
    specs = case["labs"]
    q = case["q"]
    world = World(specs, device=case["device"], grid=q, wl_kwargs={"max_volume": case["M"]})
    for spec, lw in zip(specs, world.labs):
        _naming(obs, spec, lw)
    if obs.violations:
        return obs
    troughs = trough_indices(specs)
    scale = max([1.0] + [float(np.max(lw.volumes)) for lw in world.labs])
    mixes = 0
    emptied = set()
    fed = {}  # (lab, idx) -> chain depth of the liquid it holds
    for k, op in enumerate(case["ops"]):
        op = dict(op)
        kind = op["op"]
        if kind == "distribute":
            if not troughs:
                continue
            op["src"] = troughs[op["src"] % len(troughs)]
            op["cap"] = case["M"]
            if k % 2:
                op["distinct_on"] = "evo"  # wells distinct by id; on the Fluent several of them may share a position
                t_ = troughs[op["dst"] % len(troughs)]
                if specs[t_]["vrows"] >= 2 and k % 4 == 1:
                    # two virtual rows of one column of a trough as destinations
                    c_ = op["col"] % specs[t_]["cols"]
                    op["dst"], op["dw"] = t_, {"t": "list", "w": [[0, c_], [1, c_]]}
                    obs.cls("distribute-into-virtual-rows-of-one-column")
        if kind == "evo_dispense":
            op["cap"] = case["M"]
            if case["device"] != "evo":
                # the Fluent has no script commands: the same wells, volumes and compositions as one multi-well dispense
                op["op"] = kind = "dispense"
                op["wells"] = {"t": "list", "w": [[r, op["col"]] for r in op["rows"]]}
                op["vols"] = {"t": "list", "v": op["vols"]} if isinstance(op["vols"], list) else {"t": "scalar", "v": op["vols"]}
            else:
                obs.cls("evo_dispense-with-compositions")
        if kind in ("aspirate", "dispense") and not op.get("refused"):
            op["cap"] = case["M"]
        if kind == "transfer":
            op["cap"] = 10 * case["M"]
            plates_ = [i_ for i_, sp in enumerate(specs) if sp["kind"] == "plate" and sp["rows"] >= 2]
            if op.get("colchain") is not None and plates_:
                # a serial dilution down one column within ONE call: every well but the first is destination, then source
                i_ = plates_[op["colchain"] % len(plates_)]
                R_, c_ = specs[i_]["rows"], op["colchain"] % specs[i_]["cols"]
                k_ = min(R_ - 1, 3)
                op["src"] = op["dst"] = i_
                op["sw"] = {"t": "list", "w": [[r_, c_] for r_ in range(k_)]}
                op["dw"] = {"t": "list", "w": [[r_ + 1, c_] for r_ in range(k_)]}
                op["vols"] = {"t": "scalar", "v": {"f": 0.3}}
                op["chain"] = op["refill"] = None
                obs.cls("column-chain-in-one-call")
            if op.get("chain") is not None and fed:
                i_, idx_ = sorted(fed)[op["chain"] % len(fed)]
                op["src"], op["sw"] = i_, {"t": "scalar", "w": [idx_[0], idx_[1]]}
            if op.get("refill") is not None and emptied:
                i_, idx_ = sorted(emptied)[op["refill"] % len(emptied)]
                op["dst"], op["dw"] = i_, {"t": "scalar", "w": [idx_[0], idx_[1]]}
        conc = resolve(world, op)
        if kind == "distribute" and (not conc["dflat"] or conc["vol"] > case["M"]):
            continue
        if kind == "transfer":
            pairs = flat_pairs(world, conc)
            srcs = {(p[0], p[1]) for p in pairs if p[3] < 0}
            dsts = {(p[0], p[1]) for p in pairs if p[3] > 0}
            dependent = len(conc["pairs"]) > 1 and bool(srcs & dsts)
            follow_records = dependent and bool(q)  # grid regime: record volumes are exact
            if dependent and not follow_records:
                s, d = conc["pairs"][0]
                v = conc["flatvols"][0]
                conc = dict(conc, sw={"t": "scalar", "ids": s}, dw={"t": "scalar", "ids": d}, pairs=[[s, d]], flatvols=[v], vols={"t": "scalar", "v": v})
                obs.cls("reduced-dependent-transfer")
            if expect_transfer(world, conc) != "accept":
                obs.cls("skipped")
                continue
            if follow_records:
                obs.cls("dependent-transfer-by-records")
        elif op.get("refused"):
            if expect_sequential(world, flat_pairs(world, conc))[0] != "refuse-over":
                continue
            snap = [{name: arr.copy() for name, arr in lw.composition.items()} for lw in world.labs]
            vols0 = world.vols()
            step = execute(world, conc)
            obs.units += 1
            obs.cls("refused-dispense")
            if step.exc is None:
                obs.bad("C05/overflow-accepted", f"op {k}: dispense of {conc['vols']['v']} into {conc['wells']['ids']} should overflow but returned")
                break
            for i, lw in enumerate(world.labs):
                if not np.array_equal(lw.volumes, vols0[i]):
                    obs.bad("C05/refused-changed-volume", f"op {k}: refused dispense changed the volumes of {specs[i]['name']}")
                for name, arr in lw.composition.items():
                    old_arr = snap[i].get(name)
                    if (old_arr is None and np.any(arr != 0)) or (old_arr is not None and not np.array_equal(old_arr, arr)):
                        obs.bad("C05/refused-changed-composition", f"op {k}: a dispense refused with {type(step.exc).__name__} changed composition[{name!r}] of {specs[i]['name']}: {None if old_arr is None else old_arr.tolist()} -> {arr.tolist()}")
                        break
            if obs.violations:
                break
            continue
        else:
            if expect_sequential(world, flat_pairs(world, conc))[0] != "accept":
                obs.cls("skipped")
                continue
        before_comp = {i: {name: arr.copy() for name, arr in lw.composition.items()} for i, lw in enumerate(world.labs)}
        before_tot = _totals(world)
        step = execute(world, conc)
        obs.units += 1
        if step.exc is not None:
            obs.cls("ended-by-" + type(step.exc).__name__)
            break
        obs.cls("op:" + kind)
        pairs = flat_pairs(world, conc)
        # classification before the model moves on
        for i, idx, dv, sign in pairs:
            if sign > 0 and dv == 0 and float(step.pre[i][idx]) == 0:
                obs.cls("zero-volume-into-empty")
            if sign > 0 and dv > 0 and (i, idx) in emptied:
                obs.cls("emptied-and-refilled")
        if kind == "transfer":
            if conc["src"] == conc["dst"]:
                obs.cls("same-labware")
            for (s, d), v in zip(conc["pairs"], conc["flatvols"]):
                si = real_idx(specs[conc["src"]], [LETTERS.index(s[0]), int(s[1:]) - 1])
                di = real_idx(specs[conc["dst"]], [LETTERS.index(d[0]), int(d[1:]) - 1])
                if conc["src"] == conc["dst"] and si == di:
                    obs.cls("self-transfer")
                if v > 0:
                    depth = fed.get((conc["src"], si), 0) + 1
                    fed[(conc["dst"], di)] = max(fed.get((conc["dst"], di), 0), depth)
                    if depth >= 2:
                        obs.cls("chain>=2")
        if kind == "transfer" and follow_records:
            # a well is source and destination of different triples: the mixture depends on the order of the
            # sub-steps, which is the order of the emitted A/D pairs (what the robot executes)
            racks = {sp["name"]: gwl.Rack.from_spec(sp) for sp in specs}
            recs = [r_ for r_ in world.wl[step.rec0 : step.rec1] if r_[:2] in ("A;", "D;")]
            ok = len(recs) % 2 == 0
            for a_, d_ in zip(recs[0::2], recs[1::2]):
                fa, fd = a_.split(";"), d_.split(";")
                if fa[0] != "A" or fd[0] != "D" or fa[6] != fd[6] or fa[1] not in racks or fd[1] not in racks:
                    ok = False
                    break
                sidx, _ = racks[fa[1]].well_of_position(int(fa[4]), case["device"])
                didx, _ = racks[fd[1]].well_of_position(int(fd[4]), case["device"])
                si = [i_ for i_, sp in enumerate(specs) if sp["name"] == fa[1]][0]
                di = [i_ for i_, sp in enumerate(specs) if sp["name"] == fd[1]][0]
                vol = Fraction(fa[6])
                taken = world.models[si].remove(sidx, vol)
                world.models[di].add(didx, vol, taken)
            if not ok:
                obs.bad("C05/records-unpaired", f"op {k} transfer: A/D records do not pair up: {recs[:4]}")
                break
        else:
            model_apply(world, conc)
        if kind in ("transfer", "distribute") or (kind == "dispense" and conc.get("comps")):
            mixes += sum(1 for p in pairs if p[3] > 0 and p[2] > 0)
        for i, lw in enumerate(world.labs):
            vols = lw.volumes
            for idx in np.ndindex(vols.shape):
                if vols[idx] == 0 and step.pre[i][idx] > 0:
                    emptied.add((i, idx))
        # ---- invariants
        multi = 0
        for i, (spec, lw, model) in enumerate(zip(specs, world.labs, world.models)):
            comp = lw.composition
            vols = lw.volumes
            if kind == "aspirate":
                for name, arr in comp.items():
                    old = before_comp[i].get(name)
                    if old is None or old.tobytes() != arr.tobytes():
                        obs.bad("C05/removal-changed-composition", f"op {k} aspirate changed composition[{name!r}] of {spec['name']}")
            for name, arr in comp.items():
                if arr.shape != vols.shape:
                    obs.bad("C05/array-shape", f"composition[{name!r}] of {spec['name']} has shape {arr.shape}, volumes {vols.shape}")
                    continue
                if not np.all(np.isfinite(arr)):
                    obs.bad("C05/not-finite", f"after op {k} {kind} (pairs {[(p[1], p[2]) for p in pairs][:4]}): composition[{name!r}] of {spec['name']} contains {arr[~np.isfinite(arr)][:1]}")
                elif np.any(arr < -1e-12) or np.any(arr > 1 + 1e-12):
                    obs.bad("C05/out-of-range", f"after op {k} {kind}: composition[{name!r}] of {spec['name']} leaves [0,1]: min {arr.min()} max {arr.max()}")
            if obs.violations:
                break
            for idx in np.ndindex(vols.shape):
                if model.comp[idx] is None:
                    continue
                if float(model.vol[idx]) <= 1e-9 or vols[idx] <= 1e-9:
                    continue
                total = sum(float(arr[idx]) for arr in comp.values())
                if abs(total - 1.0) > 1e-9:
                    obs.bad("C05/not-normalised", f"after op {k} {kind}: fractions in {spec['name']}{idx} (volume {vols[idx]}) sum to {total!r}")
                    break
                want = model.fractions(idx)
                got = {name: float(arr[idx]) for name, arr in comp.items() if arr[idx] != 0}
                # float round-off of the volume bookkeeping (~1e-16 x the volumes handled) becomes a fraction error of
                # round-off / volume in a nearly empty well
                tol = 1e-9 + 1e-12 * scale / float(vols[idx])
                for name in set(want) | set(got):
                    if abs(float(want.get(name, 0)) - got.get(name, 0.0)) > tol:
                        obs.bad(
                            "C05/mixture",
                            f"after op {k} {kind} ({case['device']}): {spec['name']}{idx}: fraction of {name!r} is {got.get(name, 0.0)!r}, ideal mixing gives {float(want.get(name, 0))!r} (op: {({a: conc[a] for a in conc if a in ('pairs', 'flatvols', 'dflat', 'vol', 'col', 'wells', 'vols', 'comps')})})",
                        )
                        break
                if obs.violations:
                    break
                gw = lw.get_well_composition(wid(idx[0], idx[1]))
                if {a: float(b) for a, b in gw.items()} != {a: b for a, b in got.items() if b > 0}:
                    obs.bad("C05/get_well_composition", f"{spec['name']}{idx}: get_well_composition {gw} != arrays {got}")
                if len(got) >= 2:
                    multi += 1
            if obs.violations:
                break
        if obs.violations:
            break
        if kind == "transfer":
            after_tot = _totals(world)
            for name in set(before_tot) | set(after_tot):
                a, b = before_tot.get(name, 0.0), after_tot.get(name, 0.0)
                if abs(a - b) > 1e-9 * max(1.0, abs(a)):
                    obs.bad("C05/not-conserved", f"op {k} transfer changed the total amount of {name!r} from {a!r} to {b!r}")
                    break
        if obs.violations:
            break
        obs.nontrivial = mixes >= 2 and multi >= 1
    _msg = world.templates_changed()
    if _msg:
        obs.bad("C05/untouched-object-changed", _msg)
    if world.templates:
        obs.cls("cloned-labware")
    return obs
