"""C17 - saving writes exactly the records, one per line, replacing earlier content."""
import os
import pathlib
import shutil
import tempfile

from hypothesis import strategies as st

from vf.core import Obs

PID = "C17"
RULE = (
    "case = a list of 0..12 record-producing steps (comment with Latin-1 text incl. 'µ' and several lines, wash, "
    "flush, commit, aspirate_well, dispense_well, reagent_distribution, raw strings and blocks of up to 600 lines appended with list.extend) + a "
    "pre-existing file (absent / shorter / longer than the new content, arbitrary bytes) + path given as str or "
    "pathlib.Path + file name (*.gwl, *.GWL, dotted names; or a name without .gwl that must be refused) + mode: "
    "explicit save, save twice (growing or shrinking record list), save again with the same number of records (a record replaced in place; the file overwritten externally), the same worklist object in two with-blocks, `with` left normally, `with` left by an "
    "exception, `with` on a pre-filled worklist. Non-trivial = >= 2 records and (a longer pre-existing file or a "
    "non-ASCII character or a second save); distinct by canonical JSON."
)
ASSUMPTIONS = [
    "oracle: file bytes == '\\r\\n'.join(records).encode('latin-1'); reading back and splitting at CRLF returns the records",
    "raw records are printable Latin-1 strings without control characters (a record never contains a line break)",
    "names that contain '.gwl' without ending in it are not generated (undetermined)",
]
BUDGET = {"quick": (4, 600), "thorough": (16, 3000)}
KNOWN_KINDS = {}
STRATA = ["save", "save-twice", "save-again", "with", "with-twice", "with-exc", "with-prefilled", "bad-name"]
REQUIRED_CLASSES = ["mode:save", "mode:save-twice", "mode:with", "mode:with-exc", "mode:with-prefilled", "mode:bad-name", "mode:save-again", "mode:with-twice", "pre:longer", "pre:shorter", "pre:absent", "non-ascii", "empty-worklist", "path:Path", "path:str"]

LATIN = [chr(c) for c in list(range(0x20, 0x7F)) + list(range(0xA0, 0x100))]
LATIN_NS = [c for c in LATIN if c != ";"]


def _steps():
    text = st.text(alphabet=LATIN_NS, min_size=1, max_size=20)
    return st.lists(
        st.one_of(
            st.fixed_dictionaries({"m": st.just("comment"), "text": st.one_of(text, st.just("Volume in µL"), st.tuples(text, text).map(lambda ab: ab[0] + "\n" + ab[1]))}),
            st.fixed_dictionaries({"m": st.just("wash"), "scheme": st.integers(1, 4)}),
            st.just({"m": "flush"}),
            st.just({"m": "commit"}),
            st.fixed_dictionaries({"m": st.sampled_from(["aspirate_well", "dispense_well"]), "label": st.text(alphabet=LATIN_NS, min_size=1, max_size=12), "pos": st.integers(1, 96), "vol": st.integers(0, 95000).map(lambda i: i / 100), "lc": st.sampled_from(["", "Water", "µ-class"])}),
            st.fixed_dictionaries({"m": st.just("rd"), "vol": st.integers(1, 200), "excl": st.lists(st.integers(2, 11), max_size=3, unique=True)}),
            st.fixed_dictionaries({"m": st.just("raw"), "text": st.text(alphabet=LATIN, min_size=0, max_size=30)}),
            st.fixed_dictionaries({"m": st.just("bulk"), "n": st.one_of(st.integers(1, 40), st.integers(40, 600))}),
        ),
        min_size=0,
        max_size=12,
    )


@st.composite
def _case(draw, mode):
    name = draw(st.sampled_from(["out.gwl", "OUT.GWL", "my worklist.gwl", "a.b.gwl", "Ärger.gwl", "x.Gwl"]))
    if mode == "bad-name":
        name = draw(st.sampled_from(["out.txt", "out", "gwl", "out.gw", "out.gwI", "worklist.csv", "outgwl"]))
    pre = draw(st.sampled_from(["absent", "shorter", "longer", "longer", "same-name-dir-absent"]))
    return {
        "mode": mode,
        "name": name,
        "path_kind": draw(st.sampled_from(["str", "Path"])),
        "pre": pre,
        "pre_bytes": draw(st.binary(min_size=1, max_size=40)).hex(),
        "steps": draw(_steps()),
        "steps2": draw(_steps()) if mode == "save-twice" else [],
        "shrink_second": draw(st.booleans()),
        "gwl_dir": draw(st.booleans()),
    }


def strategy(tier, stratum):
    return _case(stratum)


ENUM_SPACE = "worklists with exactly n records for n in {0,1,2,63,64,65,127,128,129,255,256,257,511,512,513,767,768,769,1023,1024,1025} x {save, with} (block-size boundaries of a chunked writer)"


def enumerate_cases(tier):
    for n in (0, 1, 2, 63, 64, 65, 99, 100, 101, 127, 128, 129, 255, 256, 257, 499, 500, 501, 511, 512, 513, 767, 768, 769, 999, 1000, 1001, 1023, 1024, 1025, 1999, 2000, 2001, 3000, 4096):
        for mode in ("save", "with"):
            steps = [{"m": "bulk", "n": n}] if n else []
            yield {"mode": mode, "name": "out.gwl", "path_kind": "str", "pre": "longer", "pre_bytes": "00ff", "steps": steps, "steps2": [], "shrink_second": False}
    # an earlier file of the same name that already holds the same records with other line breaks (copied from another system)
    for pre in ("same-lf", "same-cr", "same-crlf-trailing"):
        for mode in ("save", "with"):
            yield {"mode": mode, "name": "out.gwl", "path_kind": "str", "pre": pre, "pre_bytes": "00", "steps": [{"m": "bulk", "n": 3}, {"m": "flush"}], "steps2": [], "shrink_second": False}


def _apply(wl, steps):
    for s in steps:
        m = s["m"]
        if m == "comment":
            wl.comment(s["text"])
        elif m == "wash":
            wl.wash(s["scheme"])
        elif m == "flush":
            wl.flush()
        elif m == "commit":
            wl.commit()
        elif m in ("aspirate_well", "dispense_well"):
            getattr(wl, m)(s["label"], s["pos"], s["vol"], liquid_class=s["lc"])
        elif m == "rd":
            wl.reagent_distribution("T", 1, 8, "P", 1, 12, volume=s["vol"], exclude_wells=s["excl"])
        elif m == "bulk":
            wl.extend([f"C;line {i} of {s['n']}" for i in range(s["n"])])
        else:
            wl.extend([s["text"]])


def _oracle(records):
    return "\r\n".join(records).encode("latin-1")


def _check_file(obs, path, records, what):
    if not os.path.exists(path):
        obs.bad("C17/no-file", f"{what}: no file was written")
        return
    data = open(path, "rb").read()
    want = _oracle(records)
    if data != want:
        obs.bad("C17/bytes", f"{what}: file holds {data[:80]!r}{'...' if len(data) > 80 else ''} ({len(data)} bytes), expected {want[:80]!r} ({len(want)} bytes) for {len(records)} records")
        return
    if records:
        back = data.decode("latin-1").split("\r\n")
        if back != records:
            obs.bad("C17/roundtrip", f"{what}: reading back gives {back[:4]} != records {records[:4]}")
    elif data != b"":
        obs.bad("C17/empty", f"{what}: empty worklist wrote {data!r}")


def check_case(case) -> Obs:
    import robotools

    obs = Obs()
    mode = case["mode"]
    tmp = tempfile.mkdtemp(prefix="vf_c17_")
    try:
        base = tmp
        if case["mode"] == "bad-name" and case.get("gwl_dir"):
            base = os.path.join(tmp, "assay.gwl_parts")  # '.gwl' in a directory name does not make the file name valid
            os.makedirs(base)
        path = os.path.join(base, case["name"])
        arg = pathlib.Path(path) if case["path_kind"] == "Path" else path
        obs.cls("mode:" + mode, "path:" + case["path_kind"])
        # the class varies with the case: EvoWorklist, its deprecated alias Worklist, FluentWorklist, BaseWorklist
        cls = [robotools.EvoWorklist, robotools.Worklist, robotools.FluentWorklist, robotools.BaseWorklist][(len(case["name"]) + len(case["steps"])) % 4]
        obs.cls("class:" + cls.__name__)
        # expected size of the new content decides what "longer"/"shorter" means
        probe = cls()
        _apply(probe, case["steps"])
        expected_len = len(_oracle(list(probe)))
        pre = case["pre"]
        if pre in ("same-lf", "same-cr", "same-crlf-trailing"):
            sep = {"same-lf": "\n", "same-cr": "\r", "same-crlf-trailing": "\r\n"}[pre]
            text = sep.join(list(probe)) + ("\r\n" if pre == "same-crlf-trailing" else "")
            with open(path, "wb") as fh:
                fh.write(text.encode("latin-1"))
        elif pre in ("shorter", "longer"):
            blob = case["pre_bytes"]
            if isinstance(blob, str):
                blob = bytes.fromhex(blob)
            if pre == "longer":
                blob = blob * (expected_len // len(blob) + 3) + b"\r\nTRAILING;GARBAGE\r\n"
            else:
                blob = blob[: max(1, min(len(blob), expected_len // 2))] if expected_len > 1 else b""
                if not blob:
                    pre = "absent"
            if pre != "absent":
                with open(path, "wb") as fh:
                    fh.write(blob)
        else:
            pre = "absent"
        obs.cls("pre:" + pre)

        if mode == "bad-name":
            wl = cls()
            _apply(wl, case["steps"])
            existed = os.path.exists(path)
            before = open(path, "rb").read() if existed else None
            for how in ("save", "with"):
                exc = None
                try:
                    if how == "save":
                        wl.save(arg)
                    else:
                        with cls(arg) as w2:
                            _apply(w2, case["steps"])
                except Exception as e:  # noqa
                    exc = e
                if exc is None:
                    obs.bad("C17/bad-name-accepted", f"{how}: file name {case['name']!r} (no .gwl extension) was accepted")
                now = open(path, "rb").read() if os.path.exists(path) else None
                if now != before:
                    obs.bad("C17/bad-name-wrote", f"{how}: refused file name {case['name']!r} but the file changed/was created")
            obs.nontrivial = True
            return obs

        if mode in ("save", "save-twice"):
            wl = cls()
            _apply(wl, case["steps"])
            records = list(wl)
            wl.save(arg)
            _check_file(obs, path, records, "save")
            if str(wl) != "\n".join(records):
                obs.bad("C17/str", f"str(worklist) = {str(wl)[:80]!r} != newline-joined records")
            if mode == "save-twice":
                if case["shrink_second"] and len(wl) > 1:
                    del wl[len(wl) // 2 :]
                else:
                    _apply(wl, case["steps2"])
                records = list(wl)
                wl.save(arg)
                _check_file(obs, path, records, "second save")
        elif mode == "save-again":
            # the same worklist object saved repeatedly to the same path with the SAME number of records
            wl = cls()
            _apply(wl, case["steps"])
            wl.append("C;first version")
            wl.save(arg)
            _check_file(obs, path, list(wl), "first save")
            wl[-1] = "C;second version with other bytes"
            records = list(wl)
            wl.save(arg)
            _check_file(obs, path, records, "save after replacing a record in place")
            with open(path, "wb") as fh:
                fh.write(bytes.fromhex(case["pre_bytes"]) * 40)
            wl.save(arg)
            _check_file(obs, path, records, "save after the file was overwritten by someone else")
        elif mode == "with-twice":
            wl = cls(arg)
            with wl:
                _apply(wl, case["steps"])
                wl.append("C;run 1")
            first = list(wl)
            _check_file(obs, path, first, "first with-block")
            with wl:
                if len(wl) != 0:
                    obs.bad("C17/not-empty-on-enter", f"worklist holds {len(wl)} records when the with-block is entered again")
                _apply(wl, case["steps"])
                wl.append("C;run 2")
            records = list(wl)
            _check_file(obs, path, records, "second with-block of the same worklist object")
        elif mode in ("with", "with-exc", "with-prefilled"):
            class Boom(Exception):
                pass

            wl = cls(arg)
            if mode == "with-prefilled":
                wl.extend(["C;left over", "B;"])
            records = None
            try:
                with wl as w:
                    if w is not wl:
                        obs.bad("C17/enter", "__enter__ did not return the worklist")
                    if len(w) != 0:
                        obs.bad("C17/not-empty-on-enter", f"worklist holds {list(w)} when the with-block is entered")
                    _apply(w, case["steps"])
                    records = list(w)
                    if mode == "with-exc":
                        raise Boom()
            except Boom:
                pass
            _check_file(obs, path, records or [], f"auto-save ({mode})")
            # explicit save gives the same bytes
            other = os.path.join(tmp, "explicit.gwl")
            wl.save(other)
            if not os.path.exists(other):
                obs.bad("C17/explicit-save-missing", f"save({os.path.basename(other)!r}) on a worklist created with the path {case['name']!r} did not write that file")
            elif os.path.exists(path) and open(other, "rb").read() != open(path, "rb").read():
                obs.bad("C17/autosave-differs", "auto-save and explicit save wrote different bytes")
            if str(wl) != "\n".join(list(wl)):
                obs.bad("C17/str", "str(worklist) != newline-joined records")
            if mode == "with" and os.path.exists(other):
                # an explicit save to another file does not move the worklist: the next with-block saves to the configured path
                other_bytes = open(other, "rb").read()
                with wl:
                    wl.append("C;after the explicit save")
                _check_file(obs, path, ["C;after the explicit save"], "with-block after an explicit save to another file")
                if open(other, "rb").read() != other_bytes:
                    obs.bad("C17/explicit-file-rewritten", "leaving the with-block rewrote the file of an earlier explicit save() instead of the configured path")
                records = records or ["C;after the explicit save"]
                obs.cls("with-after-explicit-save")
        if not records:
            obs.cls("empty-worklist")
        if any(ord(ch) > 127 for r in records for ch in r):
            obs.cls("non-ascii")
        obs.nontrivial = len(records) >= 2 and (pre == "longer" or mode == "save-twice" or any(ord(ch) > 127 for r in records for ch in r))
        leftovers = [f for f in os.listdir(tmp) if f not in (case["name"], "explicit.gwl", "assay.gwl_parts")]
        if leftovers:
            obs.bad("C17/stray-files", f"saving created additional files {leftovers}")
    finally:
        shutil.rmtree(tmp, ignore_errors=True)
    return obs
