"""C08 - well numbering is column-major, 1-based and device-specific for troughs."""
import numpy as np
from hypothesis import strategies as st

from vf.core import Obs

PID = "C08"
RULE = (
    "case = one labware geometry (plate rows x cols, or trough virtual_rows x cols built with Trough() or with Labware(virtual_rows=)) for which EVERY well is checked "
    "against the closed formula on both devices plus bijection/attribute/helper agreement and emitted A/D position "
    "fields, or one operation naming a non-existent well id. Enumerated: thorough = every plate 1..26 x (1..99,100,120) "
    "and every trough 1..26 x 1..24; quick = all geometries with <= 40 wells, the extremes and a fixed stride sample of "
    "the rest. Generated: non-existent ids through add/remove/aspirate/dispense/transfer/distribute/evo_aspirate/"
    "evo_dispense on random geometries. Non-trivial = geometry with rows != cols, a single row/column or a column "
    "number >= 10, or a rejected bad-id operation; distinct by canonical JSON."
)
ASSUMPTIONS = [
    "plate position = 1 + c*rows + r (both devices); trough: EVO 1 + c*virtual_rows + vr, Fluent 1 + c",
    "a non-existent id = an id that is not an element of Labware.wells (row/column out of range, unpadded, lower case, two letters, empty, trailing blank, three digits)",
    "after a refused transfer only records for the *valid* pairs of the same call may exist (C; label lines are not positioned records); after a refused aspirate/dispense/distribute/evo_* call the worklist is empty, label comment included",
]
BUDGET = {"quick": (4, 150), "thorough": (16, 1500)}
ENUM_SPACE = {
    "quick": "all plate geometries rows 1..26 x cols (1..99,100,120) and trough geometries 1..26 x 1..24 with <= 40 wells, plus 26x99, 1x99, 26x1, 16x24, 8x12, 26x120, troughs 26x24, 1x1, 8x1, and every 37th of the remaining geometries; every well of each",
    "thorough": "every plate geometry rows 1..26 x cols (1..99,100,120) and every trough geometry virtual rows 1..26 x cols 1..24; every well of each",
}
KNOWN_KINDS = {}
LETTERS = "ABCDEFGHIJKLMNOPQRSTUVWXYZ"


def wid(r, c):
    return f"{LETTERS[r]}{c + 1:02d}"


def enumerate_cases(tier):
    plate_cols = list(range(1, 100)) + [100, 120]
    plates = [(r, c) for r in range(1, 27) for c in plate_cols]
    troughs = [(v, c) for v in range(1, 27) for c in range(1, 25)]
    if tier == "quick":
        extremes_p = {(26, 99), (1, 99), (26, 1), (16, 24), (8, 12), (26, 120), (1, 1), (2, 3), (3, 2)}
        extremes_t = {(26, 24), (1, 1), (8, 1), (1, 24), (6, 2), (4, 3)}
        rest_p = [g for g in plates if g[0] * g[1] > 40 and g not in extremes_p]
        rest_t = [g for g in troughs if g[0] * g[1] > 40 and g not in extremes_t]
        plates = [g for g in plates if g[0] * g[1] <= 40 or g in extremes_p] + rest_p[::37]
        troughs = [g for g in troughs if g[0] * g[1] <= 40 or g in extremes_t] + rest_t[::37]
    for r, c in plates:
        yield {"kind": "plate", "rows": r, "cols": c}
    for v, c in troughs:
        yield {"kind": "trough", "vrows": v, "cols": c}
    # the same trough geometries built with Labware(name, 1, columns, virtual_rows=V)
    for v, c in troughs[:: (1 if tier == "thorough" else 3)]:
        yield {"kind": "trough", "vrows": v, "cols": c, "legacy": True}


BAD_STYLES = ["row+1", "col+1", "unpadded", "lower", "twoletters", "empty", "trailing", "threedigits", "col0", "far"]
OPS = ["add", "remove", "aspirate", "dispense", "transfer_src", "transfer_dst", "distribute_dst", "evo_aspirate", "evo_dispense"]


@st.composite
def _badid(draw):
    trough = draw(st.booleans())
    rows = draw(st.integers(1, 8))
    cols = draw(st.integers(1, 12))
    return {
        "kind": "badid",
        "trough": trough,
        "rows": rows,
        "cols": cols,
        "device": draw(st.sampled_from(["evo", "fluent"])),
        "op": draw(st.sampled_from(OPS)),
        "style": draw(st.sampled_from(BAD_STYLES)),
        "r": draw(st.integers(0, rows - 1)),
        "c": draw(st.integers(0, cols - 1)),
        "n_valid_before": draw(st.integers(0, 2)),
        "label": draw(st.sampled_from([None, "step"])),
    }


def strategy(tier):
    return _badid()


def _make_bad(style, rows, cols, r, c):
    if style == "row+1":
        return f"{LETTERS[rows]}{c + 1:02d}" if rows < 26 else "AA01"
    if style == "col+1":
        return f"{LETTERS[r]}{cols + 1:02d}"
    if style == "unpadded":
        return f"{LETTERS[r]}{c + 1}" if c + 1 < 10 else f"{LETTERS[r]}0{c + 1}"
    if style == "lower":
        return f"{LETTERS[r].lower()}{c + 1:02d}"
    if style == "twoletters":
        return f"A{LETTERS[r]}{c + 1:02d}"
    if style == "empty":
        return ""
    if style == "trailing":
        return f"{LETTERS[r]}{c + 1:02d} "
    if style == "threedigits":
        return f"{LETTERS[r]}{c + 1:03d}"
    if style == "col0":
        return f"{LETTERS[r]}00"
    return "Z99"


def _geometry(obs, case):
    import robotools
    from robotools import evotools, fluenttools

    if case["kind"] == "plate":
        R, C = case["rows"], case["cols"]
        lw = robotools.Labware("T", R, C, min_volume=0, max_volume=1000, initial_volumes=10)  # same name as the troughs on purpose (name-keyed caches)
        nrows_ids = R
        trough = False
    else:
        V, C = case["vrows"], case["cols"]
        if case.get("legacy"):
            lw = robotools.Labware("T", 1, C, min_volume=0, max_volume=100000, initial_volumes=1000, virtual_rows=V)
            obs.cls("trough-via-Labware")
        else:
            lw = robotools.Trough("T", V, C, min_volume=0, max_volume=100000, initial_volumes=1000)
        nrows_ids = V
        trough = True
    # the labware as constructed, or a deep copy / an unpickled copy of it (every third geometry each)
    how = (nrows_ids + 2 * C) % 3
    if how:
        from vf.lab import clone

        lw = clone(lw, "deepcopy" if how == 1 else "pickle")
        obs.cls("cloned:" + ("deepcopy" if how == 1 else "pickle"))
    wells = lw.wells
    if wells.shape != (nrows_ids, C):
        obs.bad("C08/wells-shape", f"{case}: wells.shape={wells.shape}")
        return
    if set(lw.indices.keys()) != {wid(r, c) for r in range(nrows_ids) for c in range(C)}:
        obs.bad("C08/indices-keys", f"{case}: indices keys differ from the id grammar")
        return
    positions = lw.positions
    evo_seen, flu_seen = set(), set()
    for r in range(nrows_ids):
        for c in range(C):
            w = wid(r, c)
            obs.units += 1
            if str(wells[r, c]) != w:
                obs.bad("C08/wells-id", f"{case}: wells[{r},{c}]={wells[r, c]!r}, expected {w!r}")
                return
            exp_idx = (0, c) if trough else (r, c)
            if tuple(lw.indices[w]) != exp_idx:
                obs.bad("C08/indices", f"{case}: indices[{w}]={lw.indices[w]}, expected {exp_idx}")
                return
            exp_evo = 1 + c * nrows_ids + r
            exp_flu = 1 + c if trough else exp_evo
            pe = evotools.get_well_position(lw, w)
            pf = fluenttools.get_well_position(lw, w)
            if pe != exp_evo:
                obs.bad("C08/evo-position", f"{case}: EVO position of {w} = {pe}, expected {exp_evo}")
                return
            if pf != exp_flu:
                obs.bad("C08/fluent-position", f"{case}: Fluent position of {w} = {pf}, expected {exp_flu}")
                return
            if positions[w] != exp_evo:
                obs.bad("C08/positions-attr", f"{case}: Labware.positions[{w}] = {positions[w]}, expected {exp_evo}")
                return
            evo_seen.add(pe)
            flu_seen.add(pf)
    n = nrows_ids * C
    if evo_seen != set(range(1, n + 1)):
        obs.bad("C08/evo-bijection", f"{case}: EVO positions are not exactly 1..{n}")
    if flu_seen != set(range(1, (C if trough else n) + 1)):
        obs.bad("C08/fluent-bijection", f"{case}: Fluent positions are not exactly 1..{C if trough else n}")
    if set(positions.keys()) != set(lw.indices.keys()):
        obs.bad("C08/positions-keys", f"{case}: positions keys differ from indices keys")
    # helper agreement (helpers describe plates; for troughs they describe the virtual grid)
    arr = robotools.make_well_array(nrows_ids, C)
    if arr.shape != wells.shape or not np.array_equal(arr, wells):
        obs.bad("C08/make_well_array", f"{case}: make_well_array differs from Labware.wells")
    d = robotools.make_well_index_dict(nrows_ids, C)
    if d != {wid(r, c): (r, c) for r in range(nrows_ids) for c in range(C)}:
        obs.bad("C08/make_well_index_dict", f"{case}: make_well_index_dict differs from the id grammar")
    if not trough and d != {k: tuple(v) for k, v in lw.indices.items()}:
        obs.bad("C08/index-dict-vs-indices", f"{case}: make_well_index_dict differs from Labware.indices")
    # emitted position fields for sampled wells
    cand = {(0, 0), (nrows_ids - 1, 0), (0, C - 1), (nrows_ids - 1, C - 1), (nrows_ids // 2, C // 2), (min(1, nrows_ids - 1), min(9, C - 1)), (nrows_ids - 1, min(10, C - 1))}
    if n <= 24:
        cand = {(r, c) for r in range(nrows_ids) for c in range(C)}
    for dev, cls in (("evo", robotools.EvoWorklist), ("fluent", robotools.FluentWorklist)):
        wl = cls()
        order = sorted(cand)
        for r, c in order:
            wl.aspirate(lw, wid(r, c), 1.0)
            wl.dispense(lw, wid(r, c), 1.0)
        recs = [x for x in wl if x[:2] in ("A;", "D;")]
        if len(recs) != 2 * len(order):
            obs.bad("C08/record-count", f"{case} {dev}: {len(recs)} A/D records for {len(order)} aspirate+dispense calls")
            continue
        for i, (r, c) in enumerate(order):
            exp = 1 + c * nrows_ids + r if (dev == "evo" or not trough) else 1 + c
            for rec in recs[2 * i : 2 * i + 2]:
                f = rec.split(";")
                if f[1] != lw.name or f[4] != str(exp):
                    obs.bad("C08/record-position", f"{case} {dev}: record for {wid(r, c)} is {rec!r}, expected position {exp}")
    R_ = nrows_ids
    obs.nontrivial = (R_ != C) or R_ == 1 or C == 1 or C >= 10
    obs.cls("trough" if trough else "plate")
    if C >= 10:
        obs.cls("col>=10")
    if R_ == 1 or C == 1:
        obs.cls("single-row-or-column")


def _badid_case(obs, case):
    import robotools

    rows, cols = case["rows"], case["cols"]
    trough = case["trough"]
    if trough:
        lw = robotools.Trough("T", rows, cols, min_volume=0, max_volume=10000, initial_volumes=1000)
    else:
        lw = robotools.Labware("T", rows, cols, min_volume=0, max_volume=10000, initial_volumes=1000)
    other = robotools.Labware("O", 4, 6, min_volume=0, max_volume=10000, initial_volumes=1000)
    src_trough = robotools.Trough("S", 4, 2, min_volume=0, max_volume=100000, initial_volumes=50000)
    bad = _make_bad(case["style"], rows, cols, case["r"], case["c"])
    if bad in set(lw.wells.flatten().tolist()):
        obs.cls("style-yields-existing-id")
        return
    device = case["device"]
    wl = robotools.EvoWorklist() if device == "evo" else robotools.FluentWorklist()
    op = case["op"]
    if op.startswith("evo_") and device != "evo":
        op = "aspirate"
    nv = case["n_valid_before"]
    valid = [wid(i % rows, (i // rows) % cols) for i in range(nv)]
    ids = valid + [bad]
    label = case["label"]
    # the volume for the non-existent well: 1 uL for all wells, or 0 uL for it (nothing would be pipetted - it is still not a well)
    vform = (case["r"] + case["c"] + nv) % 3 if op in ("add", "remove", "aspirate", "dispense") else 0
    vol1 = 1.0 if vform == 0 else ([1.0] * nv + [0.0] if vform == 1 else 0.0)
    obs.cls("bad-well-volume:" + ("1" if vform == 0 else "0"))
    allowed = set()  # (rack, position) pairs a record may carry

    def pos(labware, w, is_trough, nrows_ids):
        r = LETTERS.index(w[0])
        c = int(w[1:]) - 1
        if is_trough and device == "fluent":
            return 1 + c
        return 1 + c * nrows_ids + r

    for w in valid:
        allowed.add(("T", pos(lw, w, trough, rows)))
    try:
        if op == "add":
            lw.add(ids, vol1, label=label)
        elif op == "remove":
            lw.remove(ids, vol1, label=label)
        elif op == "aspirate":
            wl.aspirate(lw, ids, vol1, label=label)
        elif op == "dispense":
            wl.dispense(lw, ids, vol1, label=label)
        elif op == "transfer_src":
            dst = [wid(i % 4, i // 4) for i in range(len(ids))]
            for w in dst[:-1]:
                allowed.add(("O", pos(other, w, False, 4)))
            wl.transfer(lw, ids, other, dst, 1.0, label=label)
        elif op == "transfer_dst":
            src = [wid(i % 4, i // 4) for i in range(len(ids))]
            for w in src:
                allowed.add(("O", pos(other, w, False, 4)))
            wl.transfer(other, src, lw, ids, 1.0, label=label)
        elif op == "distribute_dst":
            allowed.clear()
            wl.distribute(src_trough, 0, lw, ids, volume=1.0, label=label or "")
        elif op == "evo_aspirate":
            allowed.clear()
            wl.evo_aspirate(lw, ids, (10, 1), list(range(1, len(ids) + 1)), 1.0, "LC", label=label)
        elif op == "evo_dispense":
            allowed.clear()
            wl.evo_dispense(lw, ids, (10, 1), list(range(1, len(ids) + 1)), 1.0, "LC", label=label)
    except Exception as exc:  # any exception type counts as a refusal
        obs.cls("rejected:" + type(exc).__name__)
        obs.nontrivial = True
    else:
        obs.bad("C08/bad-id-accepted", f"{op} on {'trough' if trough else 'plate'} {rows}x{cols} accepted the non-existent id {bad!r}")
    obs.cls("op:" + op, "style:" + case["style"])
    if not op.startswith("transfer") and len(wl) > 0:
        # "raise without emitting a record": a single call on one labware leaves nothing at all, the label comment included
        obs.bad("C08/record-after-bad-id", f"{op} with non-existent id {bad!r} ({device}, label={label!r}) left {list(wl)[:4]}")
    for rec in wl:
        if rec.startswith("C;"):
            continue
        f = rec.split(";")
        if rec[:2] in ("A;", "D;"):
            key = (f[1], int(f[4]) if f[4].isdigit() else f[4])
            if key not in allowed:
                obs.bad("C08/record-for-bad-id", f"{op} with non-existent id {bad!r} ({device}) left the record {rec!r}")
        elif rec[:2] in ("W1", "W2", "W3", "W4", "W;", "F;", "B;") and len(rec) <= 3:
            continue
        else:
            obs.bad("C08/record-for-bad-id", f"{op} with non-existent id {bad!r} ({device}) left the record {rec!r}")


def check_case(case) -> Obs:
    obs = Obs()
    obs.units = 0
    if case["kind"] == "badid":
        obs.units = 1
        _badid_case(obs, case)
    else:
        _geometry(obs, case)
    return obs
