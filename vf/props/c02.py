"""C02 - volume limits are enforced on every tracked operation."""
import math

import numpy as np
from hypothesis import strategies as st

from vf.core import Obs
from vf.lab import LETTERS, lab_spec, real_idx
from vf.prog import ops_list, World, execute, expect_sequential, expect_transfer, flat_pairs, op_direct, op_distribute, op_evo, op_transfer, resolve, trough_indices, vs_mixed

PID = "C02"
RULE = (
    "case = 1..2 labware (plates/troughs; roomy or tight limits; min_volume = 0, > 0 or above the initial volume; "
    "wells initially at max_volume) + a history of 1..16 calls over every mutating entry point: Labware.add/remove, "
    "aspirate, dispense, transfer, distribute, evo_aspirate, evo_dispense (EVO). About a third of the volume "
    "arguments are built to be refused or to sit exactly on / one or two ulps around the limit (also inf and 1e300), "
    "at the first, a middle or the last sub-step; refused calls stay in the history. Non-trivial = history with "
    ">= 1 accepted and >= 1 volume-refused call; distinct by canonical JSON."
)
ASSUMPTIONS = [
    "three-valued expectation from the pre-call real volumes and the concrete arguments: must-refuse when the exact (rational) and the float result are both beyond the limit, must-accept when both are within, either otherwise",
    "transfer: only order-independent sufficient conditions decide must-accept / must-refuse",
    "after a refusal a well may hold its pre-call value or its value in the sequential prefix before the refused sub-step",
    "distribute with volume > worklist max_volume may raise InvalidOperationError before the volume checks",
]
BUDGET = {"quick": (4, 400), "thorough": (16, 5000)}
KNOWN_KINDS = {}
# vacuity guard: every entry point must have been driven into acceptance and into its refusals
REQUIRED_CLASSES = [
    "add:accepted", "add:overflow", "remove:accepted", "remove:underflow", "aspirate:accepted", "aspirate:underflow",
    "dispense:accepted", "dispense:overflow", "transfer:accepted", "transfer:overflow", "transfer:underflow",
    "distribute:accepted", "distribute:overflow", "distribute:underflow", "evo_aspirate:accepted", "evo_aspirate:underflow",
    "evo_dispense:accepted", "evo_dispense:overflow",
]


STRATA = ["add", "remove", "aspirate", "dispense", "transfer", "distribute", "evo_aspirate", "evo_dispense"]


@st.composite
def _case(draw, focus, tier="quick"):
    q = draw(st.sampled_from([0.01, 0.25, None]))
    scenario = draw(st.sampled_from(["tight", "tight", "supply", "supply", "roomy"] if focus != "distribute" else ["supply", "supply", "tight"]))
    n = 2 if scenario == "supply" else draw(st.integers(1, 2))
    labs = []
    for i in range(n):
        kind = draw(st.sampled_from(["plate", "trough"])) if i == 0 else draw(st.sampled_from(["plate", "plate", "trough"]))
        regime = "roomy" if scenario == "roomy" else draw(st.sampled_from(["tight", "tight", "tight", "large"]))
        filled = None
        if scenario == "supply" and i == 0:
            kind, regime, filled = "trough", "roomy", True  # a well-filled supply trough next to tight labware
        labs.append(draw(lab_spec(["T1", "P2"][i], kind=kind, max_rows=8, max_cols=6, regime=regime, grid=bool(q), q=q or 0.01, allow_names=False, pos=(10 + i, 1 + i), filled=filled)))
    vs = vs_mixed(q)
    # mixing in place: a transfer whose source and destination are the same wells of the same labware
    mix = op_transfer(vs, max_n=3).map(lambda o: dict(o, dst=o["src"], dw=o["sw"]))
    anyop = st.one_of(op_direct(vs), op_direct(vs), op_transfer(vs), op_distribute(vs), op_evo(vs), mix)
    if focus in ("add", "remove", "aspirate", "dispense"):
        fop = op_direct(vs, kinds=(focus,))
    elif focus == "transfer":
        fop = st.one_of(op_transfer(vs), op_transfer(vs), mix)
    elif focus == "distribute":
        fop = op_distribute(vs)
    else:
        fop = op_evo(vs).map(lambda o: dict(o, op=focus))
    ops = st.one_of(fop, fop, anyop)
    device = "evo" if focus.startswith("evo_") else draw(st.sampled_from(["evo", "fluent"]))
    return {"labs": labs, "device": device, "q": q, "ops": draw(ops_list(ops, 1, 12 if tier == "quick" else 25))}


def strategy(tier, stratum):
    return _case(stratum, tier)


def _same(a, b):
    return a == b or abs(a - b) <= 1e-9 * max(1.0, abs(a), abs(b))


def check_case(case) -> Obs:
    from robotools import VolumeOverflowError, VolumeUnderflowError, VolumeViolationException

    obs = Obs()
    obs.units = 0
    specs = case["labs"]
    world = World(specs, device=case["device"], grid=case["q"], wl_kwargs={"max_volume": 1e7})
    n_acc = n_ref = 0
    troughs = trough_indices(specs)
    for k, op in enumerate(case["ops"]):
        op = dict(op)
        kind = op["op"]
        if kind.startswith("evo_") and case["device"] != "evo":
            op["op"] = kind = "aspirate" if kind == "evo_aspirate" else "dispense"
            op["wells"] = {"t": "list", "w": [[r, op["col"]] for r in op["rows"]]}
            op["vols"] = {"t": "list", "v": op["vols"]} if isinstance(op["vols"], list) else {"t": "scalar", "v": op["vols"]}
        if kind == "distribute":
            if not troughs:
                continue
            op["src"] = troughs[op["src"] % len(troughs)]
        conc = resolve(world, op)
        pairs = flat_pairs(world, conc)
        if not pairs:
            continue
        # ---- expectation
        allowed_types = None
        if kind == "transfer":
            verdict = expect_transfer(world, conc)
            kref = None
            if any((not math.isfinite(v)) or v > 1e6 * world.wl.max_volume for v in conc["flatvols"]):
                verdict = "refuse-any-exc"  # non-finite / astronomically large: any exception type (DESIGN §9)
        elif kind == "distribute":
            v_src, _ = expect_sequential(world, pairs[:1])
            same_well = conc["src"] == conc["dst"] and any(p[1] == pairs[0][1] for p in pairs[1:])
            v_dst, kd = expect_sequential(world, pairs[1:])
            kref = None
            vol = conc["vol"]
            if not math.isfinite(vol) or vol > world.wl.max_volume:
                verdict = "refuse-any"
            elif same_well or "either" in (v_src, v_dst):
                verdict = "either"
            elif v_src == "accept" and v_dst == "accept":
                verdict = "accept"
            else:
                verdict = "refuse"
                allowed_types = set()
                if v_src != "accept":
                    allowed_types.add(VolumeUnderflowError)
                if v_dst != "accept":
                    allowed_types.add(VolumeOverflowError)
        else:
            verdict, kref = expect_sequential(world, pairs)
        step = execute(world, conc)
        obs.units += 1
        exc = step.exc
        desc = f"op {k} {kind} {({key: conc[key] for key in conc if key in ('wells', 'vols', 'sw', 'dw', 'vol', 'dflat', 'flatvols', 'pairs', 'tips', 'col')})}"
        # ---- (i) absolute limits, always
        for i, (spec, post) in enumerate(zip(specs, step.post)):
            if np.any(post < 0) or np.any(np.isnan(post)):
                obs.bad("C02/negative", f"{desc}: {spec['name']} holds a negative/NaN volume: {post.tolist()}")
            if np.any(post > spec["max"]):
                obs.bad("C02/above-max", f"{desc}: {spec['name']} exceeds max_volume {spec['max']}: {post.tolist()} (exception: {type(exc).__name__ if exc else None})")
        # ---- (ii) wells liquid was removed from are >= min after a normal return
        if exc is None:
            for i, idx, dv, sign in pairs:
                if sign < 0 and dv > 0 and step.post[i][idx] < specs[i]["min"]:
                    obs.bad("C02/below-min", f"{desc}: returned normally but {specs[i]['name']}{idx} holds {step.post[i][idx]!r} < min_volume {specs[i]['min']}")
        # ---- (iii) outcome
        is_vol = isinstance(exc, VolumeViolationException)
        if verdict == "accept":
            if is_vol:
                obs.bad("C02/refused-valid", f"{desc}: within limits (pre {[p.tolist() for p in step.pre]}) but raised {type(exc).__name__}: {exc}")
            elif exc is not None:
                obs.bad("C02/unexpected-exception", f"{desc}: raised {type(exc).__name__}: {exc}")
        elif verdict in ("refuse-over", "refuse-under"):
            want = VolumeOverflowError if verdict == "refuse-over" else VolumeUnderflowError
            if exc is None:
                obs.bad("C02/accepted-violation", f"{desc}: must be refused ({verdict} at pair {kref}: {pairs[kref]}, pre {[p.tolist() for p in step.pre]}) but returned normally")
            elif not isinstance(exc, want) or not is_vol:
                obs.bad("C02/wrong-exception", f"{desc}: expected {want.__name__}, got {type(exc).__name__}: {exc}")
        elif verdict == "refuse":
            if exc is None:
                obs.bad("C02/accepted-violation", f"{desc}: must be refused (pre {[p.tolist() for p in step.pre]}) but returned normally")
            elif not any(isinstance(exc, t) for t in allowed_types):
                obs.bad("C02/wrong-exception", f"{desc}: expected one of {[t.__name__ for t in allowed_types]}, got {type(exc).__name__}: {exc}")
        elif verdict in ("refuse-any", "refuse-any-exc"):
            if exc is None:
                obs.bad("C02/accepted-violation", f"{desc}: must be refused (pre {[p.tolist() for p in step.pre]}) but returned normally")
            elif kind == "transfer" and not is_vol and verdict == "refuse-any":
                obs.bad("C02/wrong-exception", f"{desc}: expected a VolumeViolationException, got {type(exc).__name__}: {exc}")
        # ---- (iv) state after a refusal
        named = {(i, idx) for i, idx, _, _ in pairs}
        if exc is not None:
            for i, spec in enumerate(specs):
                for idx in np.ndindex(step.post[i].shape):
                    if (i, idx) not in named and step.post[i][idx].item().hex() != step.pre[i][idx].item().hex():
                        obs.bad("C02/frame", f"{desc}: refused call changed the unnamed well {spec['name']}{idx}")
            if kind != "transfer" and is_vol:
                # sequential prefix replica
                run = {}
                allowed = {}
                for j, (i, idx, dv, sign) in enumerate(pairs):
                    key = (i, idx)
                    if key not in run:
                        run[key] = float(step.pre[i][idx])
                        allowed[key] = [run[key]]
                    if not math.isfinite(dv):
                        continue
                    run[key] = run[key] + dv if sign > 0 else run[key] - dv
                    allowed[key].append(run[key])
                for key, vals in allowed.items():
                    got = float(step.post[key[0]][key[1]])
                    if kref is not None and verdict.startswith("refuse-") and key == (pairs[kref][0], pairs[kref][1]):
                        # the offending well: unchanged by the refused sub-step -> pre-call value or prefix value before kref
                        pre_k = float(step.pre[key[0]][key[1]])
                        seq = pre_k
                        for j, (i, idx, dv, sign) in enumerate(pairs[:kref]):
                            if (i, idx) == key:
                                seq = seq + dv if sign > 0 else seq - dv
                        if not (_same(got, pre_k) or _same(got, seq)):
                            obs.bad("C02/offending-well-changed", f"{desc}: refused at pair {kref}; offending well {specs[key[0]]['name']}{key[1]} holds {got!r}, expected {pre_k!r} (atomic) or {seq!r} (sequential)")
                    elif not any(_same(got, v) for v in vals):
                        obs.bad("C02/partial-state", f"{desc}: after the refusal well {specs[key[0]]['name']}{key[1]} holds {got!r}, not one of the pre-call/prefix values {vals}")
        # ---- bookkeeping for the evidence
        if exc is None:
            n_acc += 1
            obs.cls(f"{kind}:accepted")
        elif isinstance(exc, VolumeOverflowError):
            n_ref += 1
            obs.cls(f"{kind}:overflow")
        elif isinstance(exc, VolumeUnderflowError):
            n_ref += 1
            obs.cls(f"{kind}:underflow")
        else:
            obs.cls(f"{kind}:other-{type(exc).__name__}")
        obs.cls("verdict:" + verdict)
        if obs.violations:
            break
    _msg = world.templates_changed()
    if _msg:
        obs.bad("C02/untouched-object-changed", _msg)
    if world.templates:
        obs.cls("cloned-labware")
    obs.nontrivial = n_acc >= 1 and n_ref >= 1
    return obs
