"""C06 - large-volume handling: splitting is complete, bounded and minimal."""
import math
from fractions import Fraction

from hypothesis import strategies as st

from vf.core import Obs

PID = "C06"
RULE = (
    "case kinds: 'grid' = one max_volume M with the full list of volumes {0, integers, two-decimal fractions, k*M, "
    "k*M+-0.01, nextafter(k*M,+-inf) for k<=12, large values to 1e6} sent to partition_volume (enumerated, M in "
    "{1..20,33,50,100,200,950,1000,0.5,0.75,2.5,33.3,950.5,0.01}); 'pv' = Hypothesis-drawn (v, M) floats; "
    "'transfer' = one transfer call (both devices, auto_split on, 1..6 triples, any wash scheme / partition mode) "
    "whose A/D pairs are decoded per requested triple; 'nosplit' = auto_split=False with a step above M; "
    "'rd' = reagent_distribution(volume, multi_disp). Non-trivial = a volume above M (a split was required) or an "
    "exact multiple of M; distinct by canonical JSON."
)
ASSUMPTIONS = [
    "step count n must satisfy (n-1)*M < v <= n*M evaluated in rationals with relative slack 1e-12 (at a ratio that is an integer up to float noise both neighbours are accepted)",
    "every step 0 < s <= M*(1+1e-12); |sum - v| <= 1e-9*v; for records: two-decimal rounding, |sum - v| <= 0.005*n and s <= M + 0.005",
    "transfer volumes are multiples of 0.01 or moderate floats (not one-ulp neighbours of k*M), labware roomy",
]
BUDGET = {"quick": (4, 300), "thorough": (16, 4000)}
ENUM_SPACE = "partition_volume on M in {1..20,33,50,100,200,950,1000,0.5,0.75,2.5,33.3,950.5,0.01} x volumes {0, 1..60, 0.01-grid fractions, k*M, k*M+-0.01, nextafter(k*M,+-inf) (k=1..12), 1e3..1e6}; auto_split=False boundary cases; reagent_distribution multi_disp table"
KNOWN_KINDS = {}
SLACK = Fraction(1, 10**12)

MS = [float(m) for m in range(1, 21)] + [33.0, 50.0, 100.0, 200.0, 950.0, 1000.0, 0.5, 0.75, 2.5, 33.3, 950.5, 0.01]
INT_MS = set(float(m) for m in list(range(1, 21)) + [33, 50, 100, 200, 950, 1000])


def _vols_for(M):
    vs = {0.0}
    for i in range(1, 61):
        vs.add(float(i))
    for x in (0.01, 0.05, 0.1, 0.25, 0.3, 0.5, 0.99, 1.01, 1.5, 2.49, 2.51, 7.77, 12.34, 99.99, 100.01, 333.33, 949.99, 950.01):
        vs.add(x)
    for k in range(1, 13):
        b = k * M
        vs.update({b, round(b + 0.01, 10), round(b - 0.01, 10), math.nextafter(b, math.inf), math.nextafter(b, -math.inf), b + M / 2, b + M / 3})
    for x in (1e3, 1234.5, 1e4, 99999.99, 1e5, 123456.78, 1e6):
        if x / M <= 2e5:
            vs.add(x)
    return sorted(v for v in vs if v >= 0)


def enumerate_cases(tier):
    nkey = 0
    # totals above the format's per-record limit of 7158278 uL are fine as long as every step is below it
    for dev in ("evo", "fluent"):
        for M, v in ((2.5e6, 1e7), (7158278.0, 2 * 7158278.0), (9500.0, 114000.0), (5e6, 7158279.0)):
            yield {"kind": "transfer", "M": M, "device": dev, "src_trough": False, "src": [0], "dst": [1], "vols": [v], "wash": 1, "partition_by": "auto"}
    for M in MS:
        yield {"kind": "grid", "M": M, "int_M": M in INT_MS}
    for M in (1, 7, 50, 950, 0.5, 33.3):
        for dev in ("evo", "fluent"):
            for rel in ("above", "equal", "below", "far"):
                nkey += 1
                yield {"kind": "nosplit", "M": M, "device": dev, "rel": rel, "key": nkey}
    for M in (950, 100, 33.3, 1):
        for vol in (1, 0.5, 10, 33.3, 100, 400, 475, 476, 950):
            for md in (1, 2, 3, 6, 12, 100):
                if vol <= M:
                    yield {"kind": "rd", "M": M, "volume": vol, "multi_disp": md}


_M = st.one_of(
    st.sampled_from([1, 2, 7, 10, 50, 200, 950, 1000, 1200]),
    st.sampled_from([0.5, 2.5, 33.3, 950.5, 0.75]),
    # limits with more than two decimals (the record prints two): a step equal to the limit is printed rounded up or down
    st.sampled_from([1000 / 6, 187.456, 12.345, 1 / 3, 2 / 3, 0.125, 99.996, 7.0049]),
    st.integers(1, 2000),
    st.floats(0.05, 2000, allow_nan=False).map(lambda x: round(x, 2)),
)


def _vol_for(M):
    k = st.integers(1, 12)
    return st.one_of(
        st.just(0),
        st.integers(0, 3000),
        st.floats(0, 5000, allow_nan=False).map(lambda x: round(x, 2)),
        k.map(lambda i: round(i * M, 2)),
        k.map(lambda i: i * M),
        k.map(lambda i: math.nextafter(i * M, math.inf)),
        k.map(lambda i: math.nextafter(i * M, 0.0)),
        k.map(lambda i: i * M + 0.004),
        st.sampled_from([0.001, 0.004, 0.0049, 0.005, 0.006]),
        k.map(lambda i: round(i * M + 0.01, 2)),
        k.map(lambda i: max(0.0, round(i * M - 0.01, 2))),
        st.floats(0.001, 12, allow_nan=False).map(lambda f: round(f * M, 2)),
    )


@st.composite
def _pv(draw):
    M = draw(st.one_of(_M, st.floats(1e-3, 1e4, allow_nan=False)))
    v = draw(st.one_of(_vol_for(M), st.floats(0, 1e6, allow_nan=False), st.floats(0, 50, allow_nan=False).map(lambda f: f * M)))
    if v / M > 3e5:
        v = M * 7.5
    return {"kind": "pv", "M": M, "v": v}


@st.composite
def _transfer(draw):
    M = draw(_M)
    n = draw(st.integers(1, 6))
    vols = [draw(_vol_for(M)) for _ in range(n)]
    vols = [v if v / M <= 14 else round(M * 3.5, 2) for v in vols]
    return {
        "kind": "transfer",
        "M": M,
        "device": draw(st.sampled_from(["evo", "fluent"])),
        "src_trough": draw(st.booleans()),
        "src": [draw(st.integers(0, 7)) for _ in range(n)],
        "dst": [draw(st.integers(0, 15)) for _ in range(n)],
        "vols": vols,
        "wash": draw(st.sampled_from([1, 2, 3, 4, "flush", "reuse"])),
        "partition_by": draw(st.sampled_from(["auto", "source", "destination"])),
    }


def strategy(tier):
    return st.one_of(_pv(), _transfer(), _transfer())


def _count_range(v, M):
    """Allowed numbers of steps for v > 0: exactly ceil(v/M) in rationals; only when v/M is within 1e-12
    (relative) of an integer without being one - float noise - both neighbours are accepted."""
    fv, fM = Fraction(v), Fraction(M)
    ratio = fv / fM
    if ratio.denominator == 1:
        k = max(1, int(ratio))
        return k, k
    lo = max(1, math.ceil(fv / (fM * (1 + SLACK))))
    hi = max(1, math.ceil(fv * (1 + SLACK) / fM))
    return lo, hi


def _count_ok(v, M, n):
    lo, hi = _count_range(v, M)
    return lo <= n <= hi


def _check_partition(obs, v, M):
    from robotools.worklists.utils import partition_volume

    obs.units += 1
    steps = partition_volume(v, max_volume=M)
    steps = [float(s) for s in steps]
    if v == 0:
        if steps != []:
            obs.bad("C06/zero", f"partition_volume(0, max_volume={M}) = {steps}")
        return
    n = len(steps)
    if n == 0 or not _count_ok(v, M, n):
        obs.bad("C06/count", f"partition_volume({v!r}, max_volume={M!r}) has {n} steps {steps[:6]}, v/M={v / M!r}")
    for s in steps:
        if not (s > 0):
            obs.bad("C06/nonpositive-step", f"partition_volume({v!r}, max_volume={M!r}) = {steps[:8]} contains a step <= 0")
            break
        if Fraction(s) > Fraction(M):  # exact: a step one ulp above the limit is refused by the per-step guard
            obs.bad("C06/step-above-max", f"partition_volume({v!r}, max_volume={M!r}) = {steps[:8]} contains a step > max_volume")
            break
    if abs(math.fsum(steps) - v) > 1e-9 * max(v, 1e-300):
        obs.bad("C06/sum", f"partition_volume({v!r}, max_volume={M!r}) sums to {math.fsum(steps)!r}")
    if v > M or (v / M == round(v / M)):
        obs.nontrivial = True


def _mk_lab(src_trough):
    import robotools

    if src_trough:
        S = robotools.Trough("S", 8, 1, min_volume=0, max_volume=1e9, initial_volumes=5e8)
    else:
        S = robotools.Labware("S", 8, 1, min_volume=0, max_volume=1e9, initial_volumes=5e8)
    D = robotools.Labware("D", 8, 2, min_volume=0, max_volume=1e9, initial_volumes=0)
    return S, D


def _wl(device, key=1, **kw):
    """A worklist of the device; on the EVO every fourth one (by `key`) is the deprecated alias class robotools.Worklist,
    and every third one has been deep-copied from a worklist with other settings and then set to the wanted ones."""
    import copy

    import robotools

    from vf.lab import evo_class

    cls = evo_class(key) if device == "evo" else robotools.FluentWorklist
    if (key // 4) % 3 == 0:
        wl = copy.deepcopy(cls(max_volume=kw.get("max_volume", 950) * 3 + 1, auto_split=not kw.get("auto_split", True)))
        wl.max_volume = kw.get("max_volume", 950)
        wl.auto_split = kw.get("auto_split", True)
        return wl
    return cls(**kw)


def check_case(case) -> Obs:
    import robotools
    from robotools import InvalidOperationError

    obs = Obs()
    obs.units = 0
    kind = case["kind"]
    obs.cls("kind:" + kind)
    if kind == "grid":
        M = case["M"]
        for v in _vols_for(M):
            _check_partition(obs, v, M)
            if len(obs.violations) > 6:
                break
        obs.cls("int-M" if case["int_M"] else "nonint-M")
        return obs
    if kind == "pv":
        _check_partition(obs, case["v"], case["M"])
        if case["M"] != int(case["M"]):
            obs.cls("nonint-M")
        return obs
    if kind == "nosplit":
        M, dev, rel = case["M"], case["device"], case["rel"]
        v = {"above": round(M + 0.01, 2), "equal": M, "below": max(0.01, round(M - 0.01, 2)), "far": M * 7}[rel]
        S, D = _mk_lab(False)
        wl = _wl(dev, key=case.get("key", len(repr(case))), max_volume=M, auto_split=False)
        obs.units = 1

        def split_twin(when):
            # the same volumes on a worklist of the same device WITH auto_split: neither setting may leak into the other
            S2, D2 = _mk_lab(False)
            wl_s = _wl(dev, key=case.get("key", len(repr(case))) + 1, max_volume=M, auto_split=True)
            try:
                wl_s.transfer(S2, ["A01", "B01"], D2, ["A01", "B01"], [min(1, M), v])
            except Exception as exc:  # noqa
                obs.bad("C06/split-refused", f"auto_split=True transfer of {v} with max_volume={M} ({when} the same transfer without auto_split) raised {type(exc).__name__}: {exc}")
                return
            got = [float(r.split(";")[6]) for r in wl_s if r.startswith("A;")]
            lo, hi = _count_range(v, M)
            lo, hi = lo + 1, hi + 1  # plus the one pair of the small first volume
            if not (lo <= len(got) <= hi) or any(x > M + 0.005 for x in got):
                obs.bad("C06/record-count", f"auto_split=True transfer of [{min(1, M)}, {v}] with max_volume={M} ({when} the same transfer without auto_split) emitted the steps {got[:10]} (expected {lo}..{hi} pairs, none above max_volume)")

        order_first = case.get("key", len(repr(case))) % 2 == 0
        if order_first:
            split_twin("before")
        try:
            wl.transfer(S, ["A01", "B01"], D, ["A01", "B01"], [min(1, M), v])
        except InvalidOperationError:
            if rel in ("equal", "below"):
                obs.bad("C06/nosplit-refused", f"auto_split=False: volume {v} <= max_volume {M} raised InvalidOperationError")
        except Exception as exc:
            obs.bad("C06/nosplit-wrong-exception", f"auto_split=False, v={v}, M={M}: {type(exc).__name__}: {exc}")
        else:
            if rel in ("above", "far"):
                obs.bad("C06/nosplit-accepted", f"auto_split=False: volume {v} > max_volume {M} was accepted: {list(wl)}")
        for rec in wl:
            if rec[:2] in ("A;", "D;") and float(rec.split(";")[6]) > M + 0.005:
                obs.bad("C06/oversized-record", f"auto_split=False: record {rec!r} exceeds max_volume {M}")
        if not order_first:
            split_twin("after")
        # the same border for a reagent distribution (one dispense of v per destination well)
        for auto in (False, True):
            T = robotools.Trough("T", 8, 1, min_volume=0, max_volume=1e9, initial_volumes=5e8)
            D2 = robotools.Labware("D", 8, 2, min_volume=0, max_volume=1e9, initial_volumes=0)
            wl2 = _wl(dev, key=case.get("key", len(repr(case))) + auto, max_volume=M, auto_split=auto)
            obs.units += 1
            try:
                wl2.distribute(T, 0, D2, ["A01", "B01", "C01"], volume=v, multi_disp=4)
            except InvalidOperationError:
                if rel in ("equal", "below"):
                    obs.bad("C06/nosplit-refused", f"distribute (auto_split={auto}): volume {v} <= max_volume {M} raised InvalidOperationError")
            except Exception as exc:
                obs.bad("C06/nosplit-wrong-exception", f"distribute (auto_split={auto}), v={v}, M={M}: {type(exc).__name__}: {exc}")
            else:
                if rel in ("above", "far"):
                    obs.bad("C06/nosplit-accepted", f"distribute (auto_split={auto}): volume {v} > max_volume {M} was accepted: {list(wl2)}")
                else:
                    rrec = [r for r in wl2 if r.startswith("R;")]
                    md_field = int(rrec[0].split(";")[14]) if rrec else None
                    if md_field is None or md_field < 1 or md_field * v > M * (1 + 1e-12):
                        obs.bad("C06/multi-disp", f"distribute: volume={v}, multi_disp=4, max_volume={M} -> R record plans {md_field} multi-dispenses: {rrec}")
        obs.nontrivial = True
        return obs
    if kind == "rd":
        M, vol, md = case["M"], case["volume"], case["multi_disp"]
        wl = robotools.BaseWorklist(max_volume=M)
        obs.units = 0
        # several distributions on the SAME worklist object (the reduction must not depend on earlier calls),
        # with long and short destination ranges and exclusions
        calls = [(vol, md, 1, 96, None), (vol, md, 1, 3, None), (vol, md + 1, 5, 20, [6, 7, 8, 9, 10, 11, 12, 13]), (vol, md, 1, 96, None)]
        for v_, md_, d0, d1, excl in calls:
            obs.units += 1
            wl.reagent_distribution("S", 1, 8, "D", d0, d1, volume=v_, multi_disp=md_, exclude_wells=excl)
            f = wl[-1].split(";")
            got = int(f[14])
            if not (1 <= got <= md_) or Fraction(got) * Fraction(v_) > Fraction(M) * (1 + SLACK):
                obs.bad("C06/multi-disp", f"call {obs.units} on one worklist: reagent_distribution(volume={v_}, multi_disp={md_}, max_volume={M}, destinations {d0}..{d1} minus {excl}) plans {got} multi-dispenses")
            fits = max(1, int(Fraction(M) / Fraction(v_) + SLACK))
            if got != min(md_, fits):
                obs.bad("C06/multi-disp-reduced-too-far", f"call {obs.units}: volume={v_}, multi_disp={md_}, max_volume={M}: emitted {got}, expected min({md_}, {fits})")
        obs.nontrivial = md * vol > M
        return obs

    # transfer
    M, dev = case["M"], case["device"]
    S, D = _mk_lab(case["src_trough"])
    wl = _wl(dev, key=case.get("key", len(repr(case))), max_volume=M, auto_split=True)
    rows = "ABCDEFGH"
    sw = [f"{rows[i]}01" for i in case["src"]]
    dw = [f"{rows[i % 8]}{i // 8 + 1:02d}" for i in case["dst"]]
    vols = case["vols"]
    obs.units = 1
    try:
        wl.transfer(S, sw, D, dw, vols, wash_scheme=case["wash"], partition_by=case["partition_by"])
    except InvalidOperationError as exc:
        obs.bad("C06/split-refused", f"auto_split transfer of {vols} with max_volume={M} raised InvalidOperationError: {exc}")
        return obs
    # decode pairs
    def spos(i):
        if case["src_trough"] and dev == "fluent":
            return 1
        return 1 + i

    def dpos(i):
        return 1 + (i // 8) * 8 + i % 8

    flows = {}
    recs = [r for r in wl if r[:2] in ("A;", "D;")]
    if len(recs) % 2:
        obs.bad("C06/unpaired", f"odd number of A/D records: {len(recs)}")
        return obs
    for a, d in zip(recs[0::2], recs[1::2]):
        fa, fd = a.split(";"), d.split(";")
        if fa[0] != "A" or fd[0] != "D" or fa[6] != fd[6]:
            obs.bad("C06/unpaired", f"records do not pair up: {a!r} / {d!r}")
            return obs
        flows.setdefault((int(fa[4]), int(fd[4])), []).append(float(fa[6]))
    # requested, aggregated per position pair; identical pairs are requested separately, so aggregate the count rule
    req = {}
    for si, di, v in zip(case["src"], case["dst"], vols):
        req.setdefault((spos(si), dpos(di)), []).append(float(v))
    for key in set(req) | set(flows):
        steps = flows.get(key, [])
        wanted = req.get(key, [])
        total = sum(wanted)
        if abs(sum(steps) - total) > 0.005 * max(1, len(steps)) + 1e-9 * total:
            obs.bad("C06/record-sum", f"pair {key}: records sum to {sum(steps)}, requested {wanted} (M={M})")
        # a step below 0.005 uL is printed as 0.00: a zero in a record is a defect only if every request and the limit are multiples of 0.01
        on_grid = all(abs(v * 100 - round(v * 100)) < 1e-7 for v in list(wanted) + [M])
        for s in steps:
            if not ((0 < s or (s == 0 and not on_grid)) and s <= M + 0.005):
                obs.bad("C06/record-step", f"pair {key}: record volume {s} outside (0, {M}] (requested {wanted})")
                break
        # count: sum over the requests of ceil(v/M) (each request is split on its own)
        lo = hi = 0
        for v in wanted:
            if v == 0:
                continue
            a, b = _count_range(v, M)
            lo += a
            hi += b
        if not (lo <= len(steps) <= hi):
            obs.bad("C06/record-count", f"pair {key}: {len(steps)} A/D pairs for requests {wanted} with max_volume={M} (expected {lo}..{hi}); steps {steps[:8]}")
    if any(v > M for v in vols):
        obs.nontrivial = True
        obs.cls("split")
    if any(v and v / M == round(v / M) for v in vols):
        obs.nontrivial = True
        obs.cls("exact-multiple")
    if M != int(M):
        obs.cls("nonint-M")
    if round(M, 2) != M:
        obs.cls("M-with-more-than-2-decimals")
    if any(0 < v < 0.005 for v in vols):
        obs.cls("volume-below-half-a-hundredth")
    obs.cls("dev:" + dev)
    return obs


def extra_campaign(tier, seed, shard, nshards, st, known):
    """Thorough tier: a coverage-guided libFuzzer campaign (atheris) over byte strings decoded into cases of this module."""
    from vf.fuzzrun import campaign

    campaign(PID, tier, seed, shard, nshards, st, known, runs=20000, seeds_corpus=[b"\x00\x01\x10\x27\x00\x00\x01\x05", b"\x04\x20\x03\x02\x01"])
