"""C16 - EVO and Fluent worklists differ only in trough well numbers."""
import numpy as np
from hypothesis import strategies as st

from vf.core import Obs
from vf.lab import lab_spec
from vf.prog import ops_list, World, execute, flat_pairs, op_direct, op_distribute, op_misc, op_transfer, resolve, trough_indices, vs_mixed, vs_ok

PID = "C16"
RULE = (
    "case = 1..3 labware (at least one trough in most cases) + worklist max_volume + auto_split flag + a program of "
    "1..10 device-independent operations: aspirate, dispense, transfer (all wash schemes except None, all partition "
    "modes, split volumes), distribute, comment / wash / flush / commit; about a quarter of the volume arguments are "
    "built to violate a volume limit or max_volume. The program is resolved once and executed on two independently "
    "constructed copies of the lab with an EvoWorklist and a FluentWorklist (and, operation by operation, on a fresh "
    "copy with a BaseWorklist). Non-trivial = program that produced a trough-addressing and a plate-addressing "
    "record; distinct by canonical JSON."
)
ASSUMPTIONS = [
    "destination wells of distribute have pairwise distinct positions on both devices (for trough destinations: distinct columns)",
    "records may differ only in the position field of A/D records whose rack is a trough and in source range / destination range + exclusions of R records whose source / destination rack is a trough",
    "exception classes must be identical when either is a VolumeViolationException or InvalidOperationError; otherwise only raised/returned must agree",
    "BaseWorklist: checked on a fresh copy of the lab for operations whose volumes fit the initial state",
]
BUDGET = {"quick": (4, 400), "thorough": (16, 3000)}
KNOWN_KINDS = {}
STRATA = ["transfer", "distribute", "direct", "mixed"]
REQUIRED_CLASSES = ["op:transfer", "op:distribute", "op:aspirate", "op:dispense", "both-raised", "trough-position-differs", "base-refused", "split", "chained-transfer", "lvh-mix-transfer", "one-to-one-volume-list"]


@st.composite
def _case(draw, focus, tier="quick"):
    n = draw(st.sampled_from([1, 2, 2, 2, 3]))
    names = ["Alpha 70%", "Beta plate ", " Gamma_3"]
    labs = []
    for i in range(n):
        if i == 0:
            kind = "trough" if draw(st.integers(0, 3)) > 0 else "plate"
        elif i == 1:
            kind = "plate" if draw(st.integers(0, 3)) > 0 else "trough"
        else:
            kind = draw(st.sampled_from(["plate", "trough"]))
        labs.append(draw(lab_spec(names[i], kind=kind, max_rows=6, max_cols=6 if kind == "plate" else 4, regime=draw(st.sampled_from(["roomy", "tight"])), grid=True, pos=(10 + i, 1 + i), filled=True if i == 0 else None)))
    vs = st.one_of(vs_ok(0.01), vs_ok(0.01), vs_mixed(0.01))
    # "route": force trough -> plate (the case in which the automatic partitioning differs from "source") or plate -> trough
    tkw = st.sampled_from([{}, {}, {}, {"liquid_class": "Water free"}, {"tip": 3}, {"tip": [1, 2], "liquid_class": "LC"}, {"rack_id": "R1", "tube_id": "t", "rack_type": "96 Well"}, {"forced_rack_type": "F"}])
    t = st.tuples(op_transfer(vs, max_n=5, kw=tkw), st.sampled_from([None, "t2p", "t2p", "p2t", "chain", "chain", "lvhmix", "lvhmix", "one2one"]), st.sampled_from(["auto", "auto", None])).map(
        lambda x: dict(x[0], route=x[1], pb=x[2] or x[0]["pb"])
    )
    d = op_distribute(vs, max_n=5)
    direct = op_direct(vs, kinds=("aspirate", "dispense"), max_n=4)
    anyop = st.one_of(t, t, d, direct, direct, op_misc())
    fop = {"transfer": t, "distribute": d, "direct": direct, "mixed": anyop}[focus]
    return {
        "labs": labs,
        "M": draw(st.sampled_from([7, 50, 950, 33.3])),
        "auto_split": draw(st.sampled_from([True, True, False])),
        "diti": draw(st.sampled_from([False, False, True])),
        "ops": draw(ops_list(st.one_of(fop, anyop), 1, 10 if tier == "quick" else 16)),
    }


def strategy(tier, stratum):
    return _case(stratum, tier)


def _compare_records(obs, specs, r_evo, r_flu, desc):
    kinds = {s["name"]: s["kind"] for s in specs}
    if len(r_evo) != len(r_flu):
        obs.bad("C16/record-count", f"{desc}: EVO emitted {len(r_evo)} records, Fluent {len(r_flu)}: {r_evo[-3:]} vs {r_flu[-3:]}")
        return
    for a, b in zip(r_evo, r_flu):
        if a == b:
            continue
        fa, fb = a.split(";"), b.split(";")
        ok = False
        if fa[0] == fb[0] and fa[0] in ("A", "D") and len(fa) == len(fb) == 11:
            diff = [i for i in range(11) if fa[i] != fb[i]]
            ok = diff == [4] and kinds.get(fa[1]) == "trough"
        elif fa[0] == fb[0] == "R" and len(fa) >= 16 and len(fb) >= 16:
            src_t = kinds.get(fa[1]) == "trough"
            dst_t = kinds.get(fa[6]) == "trough"
            fixed = [0, 1, 2, 3, 6, 7, 8, 11, 12, 13, 14, 15]
            ok = all(fa[i] == fb[i] for i in fixed)
            if fa[4:6] != fb[4:6] and not src_t:
                ok = False
            if (fa[9:11] != fb[9:11] or fa[16:] != fb[16:]) and not dst_t:
                ok = False
        if ok:
            obs.cls("trough-position-differs")
        else:
            obs.bad("C16/records-differ", f"{desc}: EVO record {a!r} vs Fluent record {b!r}")
            return


def check_case(case) -> Obs:
    import robotools
    from robotools import CompatibilityError, InvalidOperationError, VolumeViolationException

    obs = Obs()
    obs.units = 0
    specs = case["labs"]
    M = case["M"]
    kw = {"max_volume": M, "auto_split": case["auto_split"], "diti_mode": case["diti"]}
    evo = World(specs, device="evo", grid=0.01, wl_kwargs=kw)
    flu = World(specs, device="fluent", grid=0.01, wl_kwargs=kw)
    troughs = trough_indices(specs)
    saw_trough = saw_plate = False
    ops = list(case["ops"])
    # liquid of unknown composition moved on: a plain dispense into an initially empty well, then a transfer out of it into a
    # well whose content is known (both devices have to dilute that well in the same way)
    for i_, sp_ in enumerate(specs):
        if sp_["kind"] != "plate":
            continue
        cells = [(r_, c_) for r_ in range(sp_["rows"]) for c_ in range(sp_["cols"])]
        empty_ = [rc for rc in cells if sp_["init"][rc[0]][rc[1]] == 0]
        filled_ = [rc for rc in cells if sp_["init"][rc[0]][rc[1]] > 0]
        if empty_ and filled_:
            e_, f_ = empty_[0], filled_[-1]
            ops = [
                {"op": "dispense", "lw": i_, "wells": {"t": "scalar", "w": [e_[0], e_[1]]}, "vols": {"t": "scalar", "v": {"f": 0.3}}, "label": None, "ints": False},
                {"op": "transfer", "src": i_, "dst": i_, "sw": {"t": "scalar", "w": [e_[0], e_[1]]}, "dw": {"t": "scalar", "w": [f_[0], f_[1]]}, "vols": {"t": "scalar", "v": {"f": 0.5}}, "wash": 1, "pb": "auto", "label": "unknown liquid", "fail_side": "src", "kw": {}, "ints": False},
            ] + ops
            obs.cls("unknown-liquid-moved-on")
            break
    for k, op in enumerate(ops):
        op = dict(op)
        kind = op["op"]
        if kind == "distribute":
            if not troughs:
                continue
            op["src"] = troughs[op["src"] % len(troughs)]
            if not isinstance(op["vol"], dict) or "f" in op["vol"]:
                op["cap"] = M
        if kind in ("aspirate", "dispense") and k % 3:
            op["cap"] = M
        if kind == "transfer":
            op["cap"] = 6 * M
            plates = [i for i, s_ in enumerate(specs) if s_["kind"] == "plate"]
            if op.get("route") == "chain" and plates:
                # serial dilution down one column of one plate within a single call (a well is destination first, source later)
                i_ = plates[op["src"] % len(plates)]
                R_ = specs[i_]["rows"]
                if R_ >= 2:
                    c_ = op["dst"] % specs[i_]["cols"]
                    k_ = min(R_ - 1, 4)
                    op["src"] = op["dst"] = i_
                    op["sw"] = {"t": "list", "w": [[r_, c_] for r_ in range(k_)]}
                    op["dw"] = {"t": "list", "w": [[r_ + 1, c_] for r_ in range(k_)]}
                    op["vols"] = {"t": "scalar", "v": {"f": 0.4}}
                    obs.cls("chained-transfer")
            elif op.get("route") == "lvhmix" and plates:
                # several column groups of which only the earlier ones need large-volume splitting
                i_ = plates[op["src"] % len(plates)]
                j_ = plates[op["dst"] % len(plates)]
                nc = min(specs[i_]["cols"], specs[j_]["cols"], 3)
                if nc >= 2:
                    op["src"], op["dst"] = i_, j_
                    op["sw"] = {"t": "list", "w": [[0, c_] for c_ in range(nc)]}
                    op["dw"] = {"t": "list", "w": [[0, c_] for c_ in range(nc)]}
                    op["vols"] = {"t": "list", "v": [round(2.5 * M, 2)] + [round(0.5 * M, 2)] * (nc - 1)}
                    op["cap"] = 3 * M
                    op["label"] = "" if k % 2 == 0 else [None, "LVH µ", "  "][k % 3]
                    obs.cls("lvh-mix-transfer")
            elif op.get("route") == "one2one":
                # one source well, one destination well, a list of volumes
                op["sw"] = {"t": "scalar", "w": op["sw"]["w"] if op["sw"]["t"] == "scalar" else [0, 0]}
                op["dw"] = {"t": "scalar", "w": op["dw"]["w"] if op["dw"]["t"] == "scalar" else [1, 0]}
                op["vols"] = {"t": "list", "v": [{"f": 0.1}, {"f": 0.05}, 1.0]}
                obs.cls("one-to-one-volume-list")
            elif op.get("route") and troughs and plates:
                a, b = troughs[0], plates[0]
                op["src"], op["dst"] = (a, b) if op["route"] == "t2p" else (b, a)
        # distribute: destination wells with pairwise distinct positions - on the Fluent (the stricter notion: one position
        # per trough column) or, every other time, only on the EVO (several virtual rows of one trough column)
        conc = resolve(evo if (kind == "distribute" and k % 2) else flu, op)
        if kind == "distribute" and k % 2 and len({w[1:] for w in conc["dflat"]}) < len(conc["dflat"]):
            obs.cls("distribute-into-virtual-rows-of-one-column")
        if kind == "distribute" and not conc["dflat"]:
            continue
        s1 = execute(evo, conc)
        s2 = execute(flu, conc)
        obs.units += 1
        obs.cls("op:" + kind)
        desc = f"op {k} {kind} " + str({a: conc[a] for a in conc if a in ("pairs", "flatvols", "dflat", "vol", "col", "wells", "vols", "wash", "pb", "label")})
        e1, e2 = s1.exc, s2.exc
        if (e1 is None) != (e2 is None):
            obs.bad("C16/outcome-differs", f"{desc}: EVO {'raised ' + type(e1).__name__ + ': ' + str(e1) if e1 else 'returned'}, Fluent {'raised ' + type(e2).__name__ + ': ' + str(e2) if e2 else 'returned'}")
        elif e1 is not None:
            obs.cls("both-raised")
            special = (VolumeViolationException, InvalidOperationError)
            if (isinstance(e1, special) or isinstance(e2, special)) and type(e1) is not type(e2):
                obs.bad("C16/exception-differs", f"{desc}: EVO raised {type(e1).__name__}, Fluent raised {type(e2).__name__}")
            obs.cls("raised:" + type(e1).__name__)
        # state
        for spec, a, b in zip(specs, evo.labs, flu.labs):
            va, vb = a.volumes, b.volumes
            if va.tobytes() != vb.tobytes():
                obs.bad("C16/volumes-differ", f"{desc}: volumes of {spec['name']} differ: EVO {va.tolist()} Fluent {vb.tolist()}")
            ca, cb = a.composition, b.composition
            if set(ca) != set(cb) or any(ca[n_].tobytes() != cb[n_].tobytes() for n_ in ca if n_ in cb):
                obs.bad("C16/composition-differs", f"{desc}: compositions of {spec['name']} differ: EVO { {n_: x.tolist() for n_, x in ca.items()} } Fluent { {n_: x.tolist() for n_, x in cb.items()} }")
            ha, hb = a.history, b.history
            if len(ha) != len(hb) or any(x[0] != y[0] or x[1].tobytes() != y[1].tobytes() for x, y in zip(ha, hb)):
                obs.bad("C16/history-differs", f"{desc}: histories of {spec['name']} differ: EVO {[(x[0], x[1].tolist()) for x in ha[-2:]]} ({len(ha)}) Fluent {[(y[0], y[1].tolist()) for y in hb[-2:]]} ({len(hb)})")
        # records
        _compare_records(obs, specs, list(evo.wl[s1.rec0 :]), list(flu.wl[s2.rec0 :]), desc)
        for rec in evo.wl[s1.rec0 :]:
            f = rec.split(";")
            if f[0] in ("A", "D") and len(f) == 11:
                knd = {s["name"]: s["kind"] for s in specs}.get(f[1])
                saw_trough |= knd == "trough"
                saw_plate |= knd == "plate"
            elif f[0] == "R":
                saw_trough = True
        if kind == "transfer" and sum(1 for r in evo.wl[s1.rec0 :] if r.startswith("A;")) > sum(1 for v in conc["flatvols"] if v > 0):
            obs.cls("split")
        # generic worklist: refuses instead of guessing (fresh copy of the lab, first operations only)
        if k < 3 and kind in ("aspirate", "dispense", "transfer", "distribute"):
            base = World(specs, device="base", grid=0.01, wl_kwargs=kw)
            sb = execute(base, conc)
            positive = any(p[2] > 0 for p in flat_pairs(base, conc))
            for rec in base.wl:
                if rec[:2] in ("A;", "D;", "R;"):
                    obs.bad("C16/base-emitted", f"{desc}: BaseWorklist emitted the positioned record {rec!r}")
            if sb.exc is None:
                if positive or kind in ("transfer", "distribute"):
                    obs.bad("C16/base-accepted", f"{desc}: BaseWorklist accepted an operation that needs device-specific numbering; records {list(base.wl)}")
            elif isinstance(sb.exc, (TypeError, CompatibilityError)):
                obs.cls("base-refused")
            elif isinstance(sb.exc, (VolumeViolationException, InvalidOperationError, ValueError, AssertionError)):
                obs.cls("base-other-refusal")
            else:
                obs.bad("C16/base-exception", f"{desc}: BaseWorklist raised {type(sb.exc).__name__}: {sb.exc}")
        if obs.violations:
            break
    _msg = evo.templates_changed()
    if _msg:
        obs.bad("C16/untouched-object-changed", _msg)
    if evo.templates:
        obs.cls("cloned-labware")
    _msg = flu.templates_changed()
    if _msg:
        obs.bad("C16/untouched-object-changed", _msg)
    if flu.templates:
        obs.cls("cloned-labware")
    obs.nontrivial = saw_trough and saw_plate
    return obs
