"""C12 - the EVO well-selection string is a faithful, decodable bitmap."""
import math

import numpy as np
from hypothesis import strategies as st

from vf.core import Obs

PID = "C12"
RULE = (
    "case = (rows, cols, selection) where selection is 'all subsets' (enumerated geometries with <= 14 wells; "
    "quick: <= 11), 'singles+empty+full' (every geometry rows 1..26 x cols 1..48) or an explicit subset drawn by "
    "Hypothesis (bit list); each selection goes through evo_get_selection, and samples through "
    "evo_make_selection_array(well ids) and the selection argument of evo_aspirate/evo_dispense. "
    "Non-trivial = a case containing a selection with >= 2 wells in different 7-bit groups, or a geometry whose "
    "rows are not a multiple of 7 so that a group straddles a column boundary; distinct by canonical JSON."
)
ASSUMPTIONS = [
    "decoder written from the EVOware rule in the property statement: 2 hex digits columns, 2 hex digits rows, then 7 wells per character, column-major, LSB first, offset 48",
    "dimensions up to 26 x 48 (two hex digits)",
]
BUDGET = {"quick": (4, 500), "thorough": (16, 4000)}
ENUM_SPACE = {
    "quick": "all subsets of every geometry (rows<=26, cols<=48) with <= 11 wells; empty and full selection of every geometry rows 1..26 x cols 1..48, every single-well selection for geometries with <= 120 wells and 17 boundary single-well selections for the larger ones",
    "thorough": "all subsets of every geometry (rows<=26, cols<=48) with <= 14 wells; empty, full and every single-well selection of every geometry rows 1..26 x cols 1..48",
}
KNOWN_KINDS = {}
LETTERS = "ABCDEFGHIJKLMNOPQRSTUVWXYZ"


def decode(sel: str):
    """Independent decoder -> (cols, rows, sorted list of column-major indices, problems)."""
    problems = []
    if len(sel) < 4:
        return None, None, [], ["shorter than 4 characters"]
    try:
        cols = int(sel[0:2], 16)
        rows = int(sel[2:4], 16)
    except ValueError:
        return None, None, [], [f"bad hex header {sel[:4]!r}"]
    n = rows * cols
    payload = sel[4:]
    if len(payload) != math.ceil(n / 7):
        problems.append(f"payload has {len(payload)} characters, expected ceil({n}/7)={math.ceil(n / 7)}")
    selected = []
    for k, ch in enumerate(payload):
        val = ord(ch) - 48
        if not 0 <= val <= 127:
            problems.append(f"character {k} has code {ord(ch)} outside 48..175")
            continue
        for bit in range(7):
            if val >> bit & 1:
                idx = k * 7 + bit
                if idx >= n:
                    problems.append(f"padding bit set (bit index {idx} >= {n} wells)")
                else:
                    selected.append(idx)
    return cols, rows, selected, problems


def enumerate_cases(tier):
    limit = 11 if tier == "quick" else 14
    for rows in range(1, 27):
        for cols in range(1, 49):
            if rows * cols <= limit:
                yield {"rows": rows, "cols": cols, "mode": "all"}
    for rows in range(1, 27):
        for cols in range(1, 49):
            if tier == "quick" and rows * cols > 120:
                yield {"rows": rows, "cols": cols, "mode": "singles", "sparse": True}
            else:
                yield {"rows": rows, "cols": cols, "mode": "singles"}


@st.composite
def _explicit(draw):
    rows = draw(st.integers(1, 26))
    cols = draw(st.integers(1, 48))
    n = rows * cols
    style = draw(st.sampled_from(["sparse", "dense", "column", "bits"]))
    if style == "sparse":
        sel = draw(st.lists(st.integers(0, n - 1), min_size=0, max_size=8, unique=True))
    elif style == "dense":
        missing = draw(st.lists(st.integers(0, n - 1), min_size=0, max_size=6, unique=True))
        sel = [i for i in range(n) if i not in set(missing)]
    elif style == "column":
        c = draw(st.integers(0, cols - 1))
        rsel = draw(st.lists(st.integers(0, rows - 1), min_size=1, max_size=min(rows, 8), unique=True))
        sel = [c * rows + r for r in rsel]
    else:
        bits = draw(st.integers(0, (1 << min(n, 64)) - 1))
        off = draw(st.integers(0, max(0, n - 64)))
        sel = [off + i for i in range(min(n, 64)) if bits >> i & 1]
    return {"rows": rows, "cols": cols, "mode": "explicit", "sel": sorted(sel), "style": style}


def strategy(tier):
    return _explicit()


def _check_one(obs, rows, cols, sel_idx, via="array"):
    import robotools
    from robotools.evotools import commands

    n = rows * cols
    if via in ("ids", "ids-repeated"):
        wells = [f"{LETTERS[i % rows]}{i // rows + 1:02d}" for i in sel_idx]
        if via == "ids-repeated" and wells:
            # the same SET of wells, some ids listed twice, as a 2-D array when possible
            wells = wells + wells[: max(1, len(wells) // 2)]
            if len(wells) % 2 == 0:
                wells = np.array(wells).reshape((2, -1))
        if via == "ids" and len(wells) == 1:
            # one well given as a bare id (str, or the numpy string taken from Labware.wells): refusing it is fine,
            # but a selection that is returned has to select that well
            for bare in (wells[0], np.array(wells)[0], tuple(wells), np.array(wells)):
                try:
                    a1 = commands.evo_make_selection_array(rows, cols, bare)
                except Exception:
                    obs.cls("bare-id-refused")
                    continue
                got1 = sorted(int(c) * rows + int(r) for r, c in zip(*np.nonzero(a1))) if getattr(a1, "shape", None) == (rows, cols) else None
                if got1 != sorted(sel_idx):
                    obs.bad("C12/array-content", f"{rows}x{cols}: wells={bare!r} ({type(bare).__name__}) gave an array selecting {got1}, expected {sel_idx}")
                    return None
                obs.cls("bare-id")
        arr = commands.evo_make_selection_array(rows, cols, wells)
        if arr.shape != (rows, cols):
            obs.bad("C12/array-shape", f"evo_make_selection_array({rows},{cols}) has shape {arr.shape}")
            return None
        got = sorted(int(c) * rows + int(r) for r, c in zip(*np.nonzero(arr)))
        if got != sorted(sel_idx) or not np.all((arr == 0) | (arr == 1)):
            obs.bad("C12/array-content", f"{rows}x{cols}: wells {wells[:8]} gave array selecting {got[:10]}")
            return None
    else:
        arr = np.zeros((rows, cols))
        for i in sel_idx:
            arr[i % rows, i // rows] = 1
    s = commands.evo_get_selection(rows, cols, arr)
    obs.units += 1
    if not isinstance(s, str):
        obs.bad("C12/type", f"selection is {type(s).__name__}")
        return None
    if len(s) != 4 + math.ceil(n / 7):
        obs.bad("C12/length", f"{rows}x{cols}: {len(s)} characters, expected {4 + math.ceil(n / 7)}")
    dc, dr, dsel, problems = decode(s)
    for p in problems:
        obs.bad("C12/malformed", f"{rows}x{cols} sel={sel_idx[:10]}: {p} in {s!r}")
    if (dc, dr) != (cols, rows):
        obs.bad("C12/dimensions", f"{rows}x{cols}: header decodes to cols={dc} rows={dr} ({s[:4]!r})")
    elif dsel != sorted(sel_idx):
        obs.bad("C12/roundtrip", f"{rows}x{cols}: selected {sorted(sel_idx)[:12]} decodes to {dsel[:12]} ({s!r})")
    return s


def check_case(case) -> Obs:
    obs = Obs()
    obs.units = 0
    rows, cols = case["rows"], case["cols"]
    n = rows * cols
    seen = {}
    if case["mode"] == "all":
        for bits in range(1 << n):
            sel = [i for i in range(n) if bits >> i & 1]
            s = _check_one(obs, rows, cols, sel)
            if s is not None:
                if s in seen:
                    obs.bad("C12/not-injective", f"{rows}x{cols}: selections {seen[s]} and {sel} give the same string {s!r}")
                seen[s] = sel
            if len(obs.violations) > 5:
                break
        obs.cls("all-subsets")
        obs.nontrivial = n > 7 or rows % 7 != 0
    elif case["mode"] == "singles":
        singles = range(n)
        if case.get("sparse"):
            singles = sorted({i for i in (0, 1, 6, 7, 8, 13, 14, rows - 1, rows, rows + 1, n // 2, n - rows - 1, n - rows, n - 8, n - 7, n - 2, n - 1) if 0 <= i < n})
        for sel in [[]] + [[i] for i in singles] + [list(range(n))]:
            s = _check_one(obs, rows, cols, sel)
            if s is not None:
                if s in seen and seen[s] != sel:
                    obs.bad("C12/not-injective", f"{rows}x{cols}: selections {seen[s]} and {sel} give the same string")
                seen[s] = sel
            if len(obs.violations) > 5:
                break
        # a few through the well-id helper
        for sel in ([0], [n - 1], list(range(min(n, 9)))):
            _check_one(obs, rows, cols, sel, via="ids")
            _check_one(obs, rows, cols, sel, via="ids-repeated")
        obs.cls("singles+empty+full")
        obs.nontrivial = n > 7
    else:
        sel = case["sel"]
        _check_one(obs, rows, cols, sel)
        _check_one(obs, rows, cols, sel, via="ids")
        _check_one(obs, rows, cols, sel, via="ids-repeated")
        obs.cls("style:" + case.get("style", "?"))
        groups = {i // 7 for i in sel}
        if len(groups) >= 2:
            obs.nontrivial = True
            obs.cls("multi-group")
        if rows % 7 != 0 and cols > 1:
            obs.cls("straddles-column")
        # through the selection argument of a real script command (single column selections only)
        colset = {i // rows for i in sel}
        if sel and len(colset) == 1 and len(sel) <= 8:
            _via_command(obs, rows, cols, sel)
    return obs


def _via_command(obs, rows, cols, sel):
    import robotools

    obs.cls("via-evo_aspirate")
    plate = robotools.Labware("P", rows, cols, min_volume=0, max_volume=1000, initial_volumes=500)
    wells = [f"{LETTERS[i % rows]}{i // rows + 1:02d}" for i in sorted(sel)]
    wl = robotools.EvoWorklist()
    wl.evo_aspirate(plate, wells, (10, 1), list(range(1, len(wells) + 1)), 5.0, "LC")
    rec = wl[-1]
    try:
        code = rec.split('"')[-2]
    except IndexError:
        obs.bad("C12/command", f"cannot find the selection string in {rec!r}")
        return
    dc, dr, dsel, problems = decode(code)
    if problems or (dc, dr) != (cols, rows) or dsel != sorted(sel):
        obs.bad("C12/command-selection", f"{rows}x{cols} wells {wells}: command selection {code!r} decodes to {dc}x{dr} {dsel} {problems}")


def extra_campaign(tier, seed, shard, nshards, st, known):
    from vf.fuzzrun import campaign

    campaign(PID, tier, seed, shard, nshards, st, known, runs=20000, seeds_corpus=[b"\x08\x0c\xff\x00\x81", b"\x02\x03\x2a"])
