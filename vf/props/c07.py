"""C07 - transfers move each requested volume between the paired wells, one tip at a time."""
import numpy as np
from hypothesis import strategies as st

from vf.core import Obs
from vf.lab import LETTERS, wid

PID = "C07"
RULE = (
    "case = ONE transfer call on fresh roomy labware: 1..10 (source, destination, volume) triples with repeats, "
    "presented as three lists / with a broadcast singleton on one argument / as 2-D arrays (column-major), wash "
    "scheme in {1,2,3,4,flush,reuse}, partition_by in {auto,source,destination}, DiTi mode on/off, auto_split on/off, small max_volume so "
    "that some volumes split, pass-through kwargs (liquid_class, tip as int/Tip/list, rack_id, rack_type, tube_id, "
    "forced_rack_type), plates and troughs (also source = destination labware), both devices; or a malformed call "
    "(incompatible lengths, a negative volume). Each valid case runs the call 4 times on fresh labware: as given, "
    "with the triples in a Hypothesis-drawn permutation, under the two other partition modes, and once with one source "
    "well holding too little so that the call is refused part-way (record grammar of what was emitted). Non-trivial = "
    ">= 2 triples whose order differs from the sorted order in both well lists, or a split; distinct by JSON."
)
ASSUMPTIONS = [
    "stream grammar: optional C; lines, then groups A, D, tip action (W<n>; | W; in DiTi mode | F; | nothing), optional B; between groups",
    "flows are aggregated per (A position, D position); tolerance 0.005 per record",
    "break rule: the record following the last group of a partition-side column in which a requested volume exceeded max_volume is B;",
    "malformed calls must raise (any exception type); for incompatible lengths no A/D record may exist afterwards",
]
BUDGET = {"quick": (4, 600), "thorough": (16, 4000)}
KNOWN_KINDS = {}
STRATA = ["lists", "broadcast", "2d", "malformed"]
REQUIRED_CLASSES = ["shape:lists", "shape:2d", "shape:broadcast-src", "shape:broadcast-dst", "shape:broadcast-vol", "shape:broadcast-wells", "split", "reordered-both", "malformed:negative", "malformed:length", "diti", "trough-source", "wash:flush", "wash:reuse", "auto_split:off", "malformed:auto_split=False", "malformed:auto_split=True", "aborted-after-complete-groups"]

WASHES = [1, 2, 3, 4, "flush", "reuse"]


@st.composite
def _geom(draw):
    if draw(st.booleans()):
        # legacy = built the older way, Labware(name, 1, columns, virtual_rows=V), instead of Trough(...)
        return {"kind": "trough", "rows": draw(st.integers(1, 8)), "cols": draw(st.integers(1, 3)), "legacy": draw(st.integers(0, 3)) == 0}
    return {"kind": "plate", "rows": draw(st.integers(1, 8)), "cols": draw(st.integers(1, 6))}


@st.composite
def _case(draw, stratum):
    src = draw(_geom())
    same = draw(st.integers(0, 4)) == 0
    dst = src if same else draw(_geom())
    M = draw(st.sampled_from([10, 50, 7.5, 950]))
    cell_s = st.tuples(st.integers(0, src["rows"] - 1), st.integers(0, src["cols"] - 1)).map(list)
    cell_d = st.tuples(st.integers(0, dst["rows"] - 1), st.integers(0, dst["cols"] - 1)).map(list)
    vol = st.one_of(st.integers(0, 40), st.integers(0, 4000).map(lambda i: i / 100), st.integers(1, 6).map(lambda k: k * M), st.integers(1, 3).map(lambda k: round(k * M + 0.01, 2)))
    shape = stratum
    if stratum == "2d":
        h, w = draw(st.integers(1, 3)), draw(st.integers(1, 3))
        n = h * w
        dims = [h, w]
    else:
        n = draw(st.integers(1, 10))
        dims = None
    triples = [[draw(cell_s), draw(cell_d), draw(vol)] for _ in range(n)]
    bshape = None
    if stratum == "broadcast":
        bshape = draw(st.sampled_from(["src", "dst", "vol", "wells"]))
        for t in triples:
            if bshape in ("src", "wells"):
                t[0] = triples[0][0]
            if bshape in ("dst", "wells"):
                t[1] = triples[0][1]
            if bshape == "vol":
                t[2] = triples[0][2]
        shape = "broadcast-" + bshape
    malformed = None
    if stratum == "malformed":
        malformed = draw(st.sampled_from(["len-src", "len-dst", "len-vol", "negative", "negative"]))
        shape = "lists"
        if malformed.startswith("len") and n < 2:
            triples = triples + [[draw(cell_s), draw(cell_d), draw(vol)] for _ in range(2)]
    kw = draw(
        st.fixed_dictionaries(
            {},
            optional={
                "liquid_class": st.sampled_from(["Water free", "", "LC_µ"]),
                "tip": st.sampled_from([1, 8, "T3", [1, 2], [4, "T4", 4]]),
                "rack_id": st.sampled_from(["", "BC0001"]),
                "rack_type": st.sampled_from(["", "96 Well Microplate"]),
                "tube_id": st.sampled_from(["", "tube 7"]),
                "forced_rack_type": st.sampled_from(["", "forced"]),
            },
        )
    )
    return {
        "device": draw(st.sampled_from(["evo", "fluent"])),
        "M": M,
        "diti": draw(st.sampled_from([False, False, True])),
        "src": src,
        "dst": dst,
        "same": same,
        "triples": triples,
        "shape": shape,
        "dims": dims,
        "wash": draw(st.sampled_from(WASHES)),
        "pb": draw(st.sampled_from(["auto", "source", "destination"])),
        "kw": kw,
        "perm": draw(st.permutations(list(range(len(triples))))),
        "malformed": malformed,
        "neg_at": draw(st.integers(0, 9)),
        "bad_len": draw(st.integers(2, 6)),
        "label": draw(st.sampled_from([None, "", "my transfer"])),
        # malformed calls must be refused whatever the large-volume handling is; valid calls without auto_split keep
        # every volume within max_volume
        "auto_split": draw(st.booleans()) if stratum == "malformed" else draw(st.sampled_from([True, True, True, False])),
    }


def strategy(tier, stratum):
    return _case(stratum)


ENUM_SPACE = "malformed length combinations: n triples in 2..6 x the argument whose length is changed (source, destination, volumes) x its length in 2..7 (different from n) x device x auto_split, and a negative volume at every position of 1..4 triples"


def enumerate_cases(tier):
    """Every incompatible-length combination (Hypothesis rarely hits a particular (n, m) pair)."""
    geom = {"kind": "plate", "rows": 8, "cols": 3}
    for device in ("evo", "fluent"):
        for auto_split in (True, False):
            base = {"device": device, "M": 50, "diti": False, "src": geom, "dst": geom, "same": False, "shape": "lists", "dims": None, "wash": 1, "pb": "auto", "kw": {}, "label": None, "auto_split": auto_split}
            for n in range(2, 7):
                triples = [[[i % 8, 0], [(i + 1) % 8, 1], 5 + i] for i in range(n)]
                for which in ("len-src", "len-dst", "len-vol"):
                    for m in range(2, 8):
                        if m != n:
                            yield dict(base, triples=triples, perm=list(range(n)), malformed=which, bad_len=m, neg_at=0)
            for n in range(1, 5):
                triples = [[[i % 8, 0], [(i + 1) % 8, 1], 5 + i] for i in range(n)]
                for k in range(n):
                    yield dict(base, triples=triples, perm=list(range(n)), malformed="negative", bad_len=2, neg_at=k)


def _mk(geom, name, short=None):
    """Fresh roomy labware; short = (cell, amount): the real well of that cell holds only `amount`."""
    import robotools

    if geom["kind"] == "trough":
        init = [1e6] * geom["cols"]
        if short:
            init[short[0][1]] = short[1]
        if geom.get("legacy"):
            return robotools.Labware(name, 1, geom["cols"], min_volume=0, max_volume=1e9, initial_volumes=np.array([init], dtype=float), virtual_rows=geom["rows"])
        return robotools.Trough(name, geom["rows"], geom["cols"], min_volume=0, max_volume=1e9, initial_volumes=init)
    init = np.full((geom["rows"], geom["cols"]), 1e6)
    if short:
        init[short[0][0], short[0][1]] = short[1]
    return robotools.Labware(name, geom["rows"], geom["cols"], min_volume=0, max_volume=1e9, initial_volumes=init)


def _pos(geom, cell, device):
    r, c = cell
    if geom["kind"] == "trough" and device == "fluent":
        return 1 + c
    return 1 + c * geom["rows"] + r


def _col_of_pos(geom, pos, device):
    if geom["kind"] == "trough" and device == "fluent":
        return pos - 1
    return (pos - 1) // geom["rows"]


def _kwargs(kw):
    import robotools

    out = dict(kw)
    if "tip" in out:
        def conv(x):
            return getattr(robotools.Tip, x) if isinstance(x, str) else x

        t = out["tip"]
        out["tip"] = [conv(x) for x in t] if isinstance(t, list) else conv(t)
    return out


def _mask(tip):
    if tip is None:
        return ""
    items = tip if isinstance(tip, list) else [tip]
    m = 0
    for x in items:
        n = int(x[1:]) if isinstance(x, str) else x
        m |= 1 << (n - 1)
    return str(m)


def _args(case, triples):
    """Builds the (source_wells, destination_wells, volumes) arguments in the requested presentation."""
    s = [wid(*t[0]) for t in triples]
    d = [wid(*t[1]) for t in triples]
    v = [t[2] for t in triples]
    shape = case["shape"]
    if shape == "2d" and case["dims"]:
        h, w = case["dims"]

        def grid(flat):
            return np.array([[flat[c * h + r] for c in range(w)] for r in range(h)])

        return grid(s), grid(d), grid(v)
    if shape == "broadcast-src":
        return s[0], d, v
    if shape == "broadcast-dst":
        return s, [d[0]], v
    if shape == "broadcast-vol":
        return np.array(s), d, v[0]
    if shape == "broadcast-wells":
        return s[0], [d[0]], v
    return s, d, v


def _run(case, triples, pb, malformed=None, short=None):
    import robotools

    from vf.lab import evo_class

    cls = evo_class(len(case["triples"]) + case["M"].__hash__() % 7 + len(str(case["wash"]))) if case["device"] == "evo" else robotools.FluentWorklist
    auto_split = case.get("auto_split", True)
    wl = cls(max_volume=case["M"], auto_split=auto_split, diti_mode=case["diti"])
    if not auto_split and not malformed:
        triples = [[t[0], t[1], min(t[2], case["M"])] for t in triples]
    S = _mk(case["src"], "Source", short)
    D = S if case["same"] else _mk(case["dst"], "Dest")
    s, d, v = _args(case, triples)
    def relen(x):
        # an incompatible length: >= 2 (a singleton would be broadcast) and different from the others
        x = list(x)
        m = case.get("bad_len", 2)
        if m == len(x):
            m += 1
        return [x[i % len(x)] for i in range(m)]

    if malformed == "len-src":
        s = relen(s)
    elif malformed == "len-dst":
        d = relen(d)
    elif malformed == "len-vol":
        v = relen(v)
    elif malformed == "negative":
        v = list(v)
        k = case["neg_at"] % len(v)
        v[k] = -abs(v[k]) - 1.5
    exc = None
    wash = case["wash"]
    if _np_wash(case):
        wash = np.int64(wash)
    try:
        wl.transfer(S, s, D, d, v, label=case["label"], wash_scheme=wash, partition_by=pb, **_kwargs(case["kw"]))
    except Exception as e:  # noqa
        exc = e
    return wl, S, D, exc


def _np_wash(case):
    """Every fifth case with a numeric scheme passes it as a numpy integer (what iterating an array of schemes gives)."""
    return isinstance(case["wash"], int) and (len(case["triples"]) + case["wash"] + len(str(case["M"]))) % 5 == 0


def _parse_stream(obs, case, records, tag):
    """Checks the grammar of one transfer's record stream; returns the list of groups
    [(A fields, D fields, index of the last record of the group)] or None."""
    want_action = {1: "W1;", 2: "W2;", 3: "W3;", 4: "W4;", "flush": "F;", "reuse": None}[case["wash"]]
    if case["diti"] and case["wash"] in (1, 2, 3, 4):
        want_action = "W;"
    i = 0
    n = len(records)
    while i < n and records[i].startswith("C;"):
        i += 1
    groups = []
    while i < n:
        r = records[i]
        if r == "B;":
            i += 1
            continue
        if not r.startswith("A;"):
            obs.bad("C07/stream", f"{tag}: unexpected record {r!r} at {i} (expected an A record or B;): {records[max(0, i - 3):i + 2]}")
            return None
        if i + 1 >= n or not records[i + 1].startswith("D;"):
            obs.bad("C07/stream", f"{tag}: aspirate {r!r} is not immediately followed by a dispense: {records[i:i + 3]}")
            return None
        fa, fd = r.split(";"), records[i + 1].split(";")
        if len(fa) != 11 or len(fd) != 11:
            obs.bad("C07/stream", f"{tag}: A/D records with {len(fa)}/{len(fd)} fields")
            return None
        for j, what in ((6, "volume"), (7, "liquid class"), (9, "tip mask"), (2, "rack id"), (3, "rack type"), (5, "tube id"), (10, "forced rack type")):
            if fa[j] != fd[j]:
                obs.bad("C07/pair-mismatch", f"{tag}: {what} differs within the pair {r!r} / {records[i + 1]!r}")
        i += 2
        if want_action is not None:
            if i >= n or records[i] != want_action:
                obs.bad("C07/tip-action", f"{tag}: pair {r!r} is followed by {records[i] if i < n else None!r}, expected {want_action!r}")
                return None
            i += 1
        else:
            if i < n and (records[i][:1] in ("W", "F")):
                obs.bad("C07/tip-action", f"{tag}: wash scheme 'reuse' but pair is followed by {records[i]!r}")
                return None
        groups.append((fa, fd, i - 1))
    return groups


def _flows(groups):
    flows, counts = {}, {}
    for fa, fd, _ in groups:
        key = (int(fa[4]), int(fd[4]))
        flows[key] = flows.get(key, 0.0) + float(fa[6])
        counts[key] = counts.get(key, 0) + 1
    return flows, counts


def check_case(case) -> Obs:
    obs = Obs()
    obs.units = 0
    device = case["device"]
    triples = case["triples"]
    obs.cls("shape:" + case["shape"], "dev:" + device, "wash:" + str(case["wash"]))
    if case["diti"]:
        obs.cls("diti")
    if case["src"]["kind"] == "trough":
        obs.cls("trough-source")

    if case["malformed"]:
        wl, S, D, exc = _run(case, triples, case["pb"], malformed=case["malformed"])
        obs.units = 1
        kind = "negative" if case["malformed"] == "negative" else "length"
        obs.cls("malformed:" + kind, "malformed:auto_split=" + str(case.get("auto_split", True)))
        if exc is None:
            obs.bad("C07/malformed-accepted", f"transfer with {case['malformed']} arguments returned normally; records {list(wl)[:6]}")
        elif kind == "length" and any(r[:2] in ("A;", "D;") for r in wl):
            obs.bad("C07/malformed-records", f"transfer with incompatible lengths raised {type(exc).__name__} but left {list(wl)[:4]}")
        obs.nontrivial = True
        return obs

    if not case.get("auto_split", True):
        triples = [[t[0], t[1], min(t[2], case["M"])] for t in triples]
        obs.cls("auto_split:off")
    wl, S, D, exc = _run(case, triples, case["pb"])
    obs.units = 1
    if _np_wash(case):
        obs.cls("wash-scheme-as-numpy-integer")
        if exc is not None:
            obs.cls("numpy-wash-scheme-refused")  # allowed: the documented type is int
            return obs
    if exc is not None:
        obs.bad("C07/valid-rejected", f"valid transfer raised {type(exc).__name__}: {exc}")
        return obs
    records = list(wl)
    groups = _parse_stream(obs, case, records, "as given")
    if groups is None:
        return obs
    # requested flows
    want, nreq = {}, {}
    for s, d, v in triples:
        if v > 0:
            key = (_pos(case["src"], s, device), _pos(case["dst"], d, device))
            want[key] = want.get(key, 0.0) + v
    got, counts = _flows(groups)
    for key in set(want) | set(got):
        if abs(want.get(key, 0.0) - got.get(key, 0.0)) > 0.005 * max(1, counts.get(key, 1)) + 1e-9:
            obs.bad("C07/flows", f"positions {key}: records move {got.get(key, 0.0)}, requested {want.get(key, 0.0)} (triples {triples}, pb={case['pb']})")
            break
    # rack labels + pass-through kwargs
    kw = case["kw"]
    for fa, fd, _ in groups:
        if fa[1] != "Source" or fd[1] != ("Source" if case["same"] else "Dest"):
            obs.bad("C07/racks", f"pair addresses {fa[1]!r} -> {fd[1]!r}")
            break
        exp = {7: kw.get("liquid_class", ""), 2: kw.get("rack_id", ""), 3: kw.get("rack_type", ""), 5: kw.get("tube_id", ""), 10: kw.get("forced_rack_type", ""), 9: _mask(kw.get("tip"))}
        for j, val in exp.items():
            if fa[j] != val:
                obs.bad("C07/kwargs", f"field {j} of {';'.join(fa)!r} is {fa[j]!r}, keyword arguments {kw} -> expected {val!r}")
                break
        if obs.violations:
            break
    # label -> comment
    ncomments = sum(1 for r in records if r.startswith("C;"))
    if case["label"] and (ncomments != 1 or records[0] != "C;" + case["label"]):
        obs.bad("C07/label-comment", f"label {case['label']!r} -> records start with {records[:2]}")
    # break rule
    side = case["pb"]
    if side == "auto":
        side = "destination" if (case["src"]["kind"] == "trough" and case["dst"]["kind"] != "trough") else "source"
    M = case["M"]
    split_cols = set()
    for s, d, v in triples:
        if v > M:
            split_cols.add(s[1] if side == "source" else d[1])
    geom = case["src"] if side == "source" else case["dst"]
    last_of_col = {}
    for fa, fd, last in groups:
        col = _col_of_pos(geom, int((fa if side == "source" else fd)[4]), device)
        last_of_col[col] = last
    for col in split_cols:
        if col in last_of_col:
            nxt = records[last_of_col[col] + 1] if last_of_col[col] + 1 < len(records) else None
            if nxt != "B;":
                obs.bad("C07/missing-break", f"column {col + 1} of the {side} had a split volume (max_volume {M}) but its last group is followed by {nxt!r}")
    if split_cols:
        obs.cls("split")
    # metamorphic: permutation and partition modes
    final = (S.volumes, D.volumes)
    variants = [("permuted", [triples[i] for i in case["perm"] if i < len(triples)], case["pb"])]
    for pb in ("auto", "source", "destination"):
        if pb != case["pb"]:
            variants.append((f"partition_by={pb}", triples, pb))
    for tag, tr, pb in variants:
        if tag == "permuted" and case["shape"].startswith("broadcast"):
            pass
        wl2, S2, D2, exc2 = _run(case, tr, pb)
        obs.units += 1
        if exc2 is not None:
            if not _np_wash(case):
                obs.bad("C07/variant-rejected", f"{tag}: raised {type(exc2).__name__}: {exc2}")
            continue
        c2 = dict(case, pb=pb)
        g2 = _parse_stream(obs, c2, list(wl2), tag)
        if g2 is None:
            continue
        got2, cnt2 = _flows(g2)
        for key in set(got) | set(got2):
            if abs(got.get(key, 0.0) - got2.get(key, 0.0)) > 0.005 * (counts.get(key, 1) + cnt2.get(key, 1)) + 1e-9:
                obs.bad("C07/metamorphic-flows", f"{tag}: flow {key} is {got2.get(key, 0.0)} instead of {got.get(key, 0.0)} (triples {triples})")
                break
        if not (np.allclose(S2.volumes, final[0], rtol=0, atol=1e-6) and np.allclose(D2.volumes, final[1], rtol=0, atol=1e-6)):
            obs.bad("C07/metamorphic-volumes", f"{tag}: final labware volumes differ from the original call")
    # a transfer that is refused part-way (one source well runs short): what was emitted up to then consists of
    # complete groups only - every aspirate with its dispense and its tip action - and moves nothing that was not requested
    positive = [t for t in triples if t[2] > 0]
    if positive and not case["same"]:
        tk = positive[case["perm"][0] % len(positive)]
        src_real = (lambda c: (0, c[1])) if case["src"]["kind"] == "trough" else (lambda c: (c[0], c[1]))
        need = sum(t[2] for t in positive if src_real(t[0]) == src_real(tk[0]))
        wl3, S3, D3, exc3 = _run(case, triples, case["pb"], short=(tk[0], need - tk[2] / 2))
        obs.units += 1
        obs.cls("aborted-transfer")
        if exc3 is None:
            obs.bad("C07/short-source-accepted", f"source well {wid(*tk[0])} holds {need - tk[2] / 2}, {need} requested from it: the transfer returned normally")
        else:
            rec3 = list(wl3)
            g3 = _parse_stream(obs, case, rec3, f"aborted by {type(exc3).__name__}")
            if g3 is not None:
                got3, cnt3 = _flows(g3)
                for key, val in got3.items():
                    if val > want.get(key, 0.0) + 0.005 * cnt3[key] + 1e-9:
                        obs.bad("C07/aborted-flows", f"aborted transfer: positions {key} received {val}, only {want.get(key, 0.0)} requested")
                        break
                if len(g3) >= 1:
                    obs.cls("aborted-after-complete-groups")
    # classification
    if len(triples) >= 2:
        ss = [wid(*t[0]) for t in triples]
        dd = [wid(*t[1]) for t in triples]
        key = lambda w: (int(w[1:]), w[0])  # noqa
        if ss != sorted(ss, key=key) and dd != sorted(dd, key=key):
            obs.cls("reordered-both")
            obs.nontrivial = True
    if split_cols:
        obs.nontrivial = True
    return obs
