"""Property-based verification harness for JuBiotech/robotools (see /verif/DESIGN.md)."""
import logging
import os
import sys
import warnings

ROOT = os.path.dirname(os.path.dirname(os.path.abspath(__file__)))
REPO = os.path.abspath(os.environ.get("VERIF_REPO", "/repo"))


def init_env() -> None:
    """Quiet, isolated import of the tree under test (idempotent)."""
    logging.disable(logging.CRITICAL)
    warnings.simplefilter("ignore")
    if not sys.path or sys.path[0] != REPO:
        sys.path.insert(0, REPO)


init_env()
