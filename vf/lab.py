"""Labware specifications as plain data, their Hypothesis strategies, construction of the real
objects, and the exact reference model (volumes and contents in rational arithmetic).

Spec (JSON):
  plate : {"kind":"plate","name":..,"rows":R,"cols":C,"min":..,"max":..,"init":[[..]*C]*R,"names":{wid:name}|None,"pos":[grid,site]}
  trough: {"kind":"trough","name":..,"vrows":V,"cols":C,"min":..,"max":..,"init":[..]*C,"colnames":[..|None]*C|None,"pos":[grid,site]}
Wells inside programs are index pairs [id_row, column] that are reduced modulo the geometry, so that
shrinking a geometry keeps the program valid.
"""
import math
from fractions import Fraction

import numpy as np
from hypothesis import strategies as st

LETTERS = "ABCDEFGHIJKLMNOPQRSTUVWXYZ"


def wid(r, c):
    return f"{LETTERS[r]}{c + 1:02d}"


def id_rows(spec):
    return spec["vrows"] if spec["kind"] == "trough" else spec["rows"]


def real_rows(spec):
    return 1 if spec["kind"] == "trough" else spec["rows"]


def real_idx(spec, cell):
    """[id_row, col] (reduced modulo the geometry) -> real (r, c)."""
    r = cell[0] % id_rows(spec)
    c = cell[1] % spec["cols"]
    return (0, c) if spec["kind"] == "trough" else (r, c)


def cell_id(spec, cell):
    return wid(cell[0] % id_rows(spec), cell[1] % spec["cols"])


# ---------------------------------------------------------------------------------------------
# strategies
# ---------------------------------------------------------------------------------------------
def _g(x):
    """two-decimal grid value"""
    return round(x, 2)


def grid_float(lo, hi, q=0.01):
    if q == 0.01:
        return st.integers(int(round(lo * 100)), int(round(hi * 100))).map(lambda i: i / 100)
    return st.integers(int(math.ceil(lo / q)), int(math.floor(hi / q))).map(lambda i: i * q)


@st.composite
def lab_spec(draw, name, *, kind=None, max_rows=8, max_cols=6, regime="roomy", grid=True, q=0.01, min_zero=None, allow_names=True, pos=None, filled=None, legacy=None, min_cols=1):
    """One labware specification.

    regime: "roomy" (limits never interfere), "tight" (limits of the order of the transferred volumes, 20-400 uL),
            "large" (as tight, with limits of 2000-60000 uL)
    grid: all numbers multiples of 0.01 (else arbitrary floats)
    filled: None = random, True = every well holds liquid
    """
    kind = kind or draw(st.sampled_from(["plate", "plate", "trough"]))
    small = draw(st.integers(0, 9)) < 7
    if kind == "plate":
        rows = draw(st.integers(1, min(4, max_rows) if small else max_rows))
        cols = draw(st.integers(1, min(4, max_cols) if small else max_cols))
    else:
        rows = draw(st.integers(1, min(4, max_rows) if small else max_rows))  # virtual rows
        cols = draw(st.integers(min_cols, max(min_cols, min(3, max_cols) if small else max_cols)))
    num = (lambda lo, hi: grid_float(lo, hi, q)) if grid else (lambda lo, hi: st.floats(lo, hi, allow_nan=False, allow_infinity=False))
    if regime == "roomy":
        vmax = draw(st.sampled_from([1e5, 5e4, 250000.0]))
        vmin = 0.0 if (min_zero or (min_zero is None and draw(st.booleans()))) else draw(num(max(q, 0.01), 50))
        hi_init = 20000.0
    elif regime == "large":
        # deep-well plates and reservoirs: limits of the order of the volumes again, but three orders of magnitude up
        vmax = draw(num(2000, 60000))
        vmin = 0.0 if (min_zero or (min_zero is None and draw(st.booleans()))) else draw(num(max(q, 0.01), 500))
        if vmin > 250:
            # dead volumes of a millilitre and more: a relative tolerance on the limit becomes visible in two decimals
            vmin = min(float(int(vmin * 4)), float(int(vmax / 2)))
        hi_init = vmax
    else:
        vmax = draw(num(20, 400))
        vmin = 0.0 if (min_zero or (min_zero is None and draw(st.booleans()))) else draw(num(max(q, 0.01), 15))
        hi_init = vmax
    nreal = (1 if kind == "trough" else rows) * cols
    # few draws (Hypothesis' entropy buffer is small): a handful of levels laid out by a fixed pattern
    style = draw(st.sampled_from(["uniform", "varied", "varied", "some-empty"])) if filled is None else "varied"
    if style == "uniform":
        v = draw(num(0, hi_init))
        flat = [v] * nreal
    else:
        levels = draw(st.lists(num(0, hi_init), min_size=1, max_size=4))
        if regime == "large" and draw(st.booleans()):
            # wells within a few hundred uL of a limit, so that one pipetting step can reach it
            levels = [max(float(vmin), vmax - (x % 300.0)) if i % 2 == 0 else min(vmax, vmin + (x % 300.0)) for i, x in enumerate(levels)]
            levels = [round(x, 2) for x in levels] if grid and q == 0.01 else levels
        stride = draw(st.integers(1, 3))
        flat = [levels[(i * stride + i // max(cols, 1)) % len(levels)] for i in range(nreal)]
        if style == "some-empty":
            bits = draw(st.integers(0, 2**12 - 1))
            flat = [0.0 if bits >> (i % 12) & 1 else v for i, v in enumerate(flat)]
    if filled:
        flat = [v if v > 0 else float(int(hi_init / 2)) for v in flat]
    flat = [min(float(v), vmax) for v in flat]
    # the caller's array type of the initial volumes: float64 (usual), an integer array, a float32 array
    dt = draw(st.integers(0, 7))
    if dt == 0:
        flat = [float(max(1, int(v))) if (filled and v > 0) else float(int(v)) for v in flat]
    elif dt == 1:
        flat = [max(0.25, round(v * 4) / 4) if (filled and v > 0) else round(v * 4) / 4 for v in flat]
        flat = [v if v <= vmax else float(int(vmax)) for v in flat]
    spec = {"kind": kind, "name": name, "cols": cols, "min": float(vmin), "max": float(vmax)}
    if dt in (0, 1):
        spec["init_dtype"] = "int64" if dt == 0 else "float32"
    elif dt in (2, 3):
        # the labware that is used is a deep copy / an unpickled copy of the constructed one (which stays alive)
        spec["clone"] = "deepcopy" if dt == 2 else "pickle"
    if pos is not None:
        spec["pos"] = list(pos)
    naming = draw(st.sampled_from(["default", "default", "explicit", "partial", "shared"])) if allow_names else "default"
    pool = ["water", "glucose", "buffer", "µ-mix", name + ".x"]
    if kind == "plate":
        spec["rows"] = rows
        spec["init"] = [flat[r * cols : (r + 1) * cols] for r in range(rows)]
        names = None
        if naming != "default":
            names = {}
            for r in range(rows):
                for c in range(cols):
                    if spec["init"][r][c] > 0:
                        if naming == "explicit":
                            names[wid(r, c)] = f"{name}-{wid(r, c)}"
                        elif naming == "shared":
                            names[wid(r, c)] = pool[(r + c) % 2]
                        elif (r + c) % 2 == 0:
                            names[wid(r, c)] = pool[(r * 3 + c) % len(pool)]
                        elif (r + c) % 4 == 1:
                            names[wid(r, c)] = None  # "no name given" said explicitly: the default name applies
        spec["names"] = names
    else:
        spec["vrows"] = rows
        spec["init"] = flat
        if legacy is None:
            legacy = draw(st.integers(0, 3)) == 0
        if legacy:
            spec["legacy"] = True
        colnames = None
        if naming != "default":
            colnames = []
            for c in range(cols):
                if flat[c] > 0 and (naming != "partial" or c % 2 == 0):
                    colnames.append(pool[c % 2] if naming == "shared" else f"{name}-col{c + 1}")
                else:
                    colnames.append(None)
        spec["colnames"] = colnames
    return spec


def lab_specs(n_min=1, n_max=3, **kw):
    """1..3 labware with pairwise distinct names and distinct worktable positions."""
    names = ["Alpha 70%", "Beta plate ", " Gamma_3"]

    @st.composite
    def _labs(draw):
        n = draw(st.integers(n_min, n_max))
        return [draw(lab_spec(names[i], pos=(10 + 7 * i, 1 + i), **kw)) for i in range(n)]

    return _labs()


# ---------------------------------------------------------------------------------------------
# real objects
# ---------------------------------------------------------------------------------------------
def _init_array(spec, values):
    """The initial volumes in the array type of the specification (exactly representable values only)."""
    dt = spec.get("init_dtype")
    if dt:
        arr = np.array(values, dtype=dt)
        if np.array_equal(arr.astype(float), np.array(values, dtype=float)):
            return arr
    return np.array(values, dtype=float)


def clone(obj, how):
    """A copy of a library object the way a user script gets one: copy.deepcopy or a pickle round trip."""
    import copy
    import pickle

    return copy.deepcopy(obj) if how == "deepcopy" else pickle.loads(pickle.dumps(obj))


def evo_class(key):
    """EvoWorklist, or (every fourth key) its deprecated alias class robotools.Worklist, which forwards all arguments."""
    import robotools

    return robotools.Worklist if key % 4 == 0 else robotools.EvoWorklist


def snapshot(lw):
    return (lw.volumes.tobytes(), {k: a.tobytes() for k, a in lw.composition.items()}, [(a, b.tobytes()) for a, b in lw.history])


def build(spec):
    import robotools

    if spec["kind"] == "trough" and spec.get("legacy"):
        # the older way of creating a trough: Labware(name, 1, columns, virtual_rows=V)
        names = None
        if spec.get("colnames"):
            names = {wid(0, c): n for c, n in enumerate(spec["colnames"]) if n is not None}
        return robotools.Labware(
            spec["name"],
            1,
            spec["cols"],
            min_volume=spec["min"],
            max_volume=spec["max"],
            initial_volumes=_init_array(spec, [spec["init"]]),
            virtual_rows=spec["vrows"],
            component_names=names,
        )
    if spec["kind"] == "trough":
        return robotools.Trough(
            spec["name"],
            spec["vrows"],
            spec["cols"],
            min_volume=spec["min"],
            max_volume=spec["max"],
            initial_volumes=_init_array(spec, spec["init"]) if spec.get("init_dtype") else list(spec["init"]),
            column_names=spec.get("colnames"),
        )
    return robotools.Labware(
        spec["name"],
        spec["rows"],
        spec["cols"],
        min_volume=spec["min"],
        max_volume=spec["max"],
        initial_volumes=_init_array(spec, spec["init"]),
        component_names=spec.get("names"),
    )


# ---------------------------------------------------------------------------------------------
# exact reference model
# ---------------------------------------------------------------------------------------------
class MLab:
    """Exact model of one labware: Fraction volume per real well, and per real well the amount of
    every named component (None = composition unknown)."""

    def __init__(self, spec, real=None):
        self.spec = spec
        self.name = spec["name"]
        self.kind = spec["kind"]
        self.cols = spec["cols"]
        self.id_rows = id_rows(spec)
        self.real_rows = real_rows(spec)
        self.vmin = Fraction(spec["min"])
        self.vmax = Fraction(spec["max"])
        init = [spec["init"]] if self.kind == "trough" else spec["init"]
        self.vol = {(r, c): Fraction(float(init[r][c])) for r in range(self.real_rows) for c in range(self.cols)}
        self.comp = {}
        # component names are taken from the real object at construction time (the naming *rule* is C05/C20's subject)
        for idx, v in self.vol.items():
            if v > 0:
                name = None
                if real is not None:
                    for k, arr in real.composition.items():
                        if arr[idx] > 0:
                            name = k
                            break
                if name is None:
                    name = f"{self.name}@{idx}"
                self.comp[idx] = {name: v}
            else:
                self.comp[idx] = {}

    def wells(self):
        return [(r, c) for r in range(self.real_rows) for c in range(self.cols)]

    def idx(self, cell):
        return real_idx(self.spec, cell)

    def fractions(self, idx):
        """component -> Fraction share, or None if unknown / empty."""
        comp = self.comp[idx]
        if comp is None:
            return None
        total = sum(comp.values())
        if total == 0:
            return {}
        return {k: a / total for k, a in comp.items() if a > 0}

    def remove(self, idx, dv):
        dv = Fraction(dv)
        v = self.vol[idx]
        comp = self.comp[idx]
        taken = None
        if comp is not None:
            if v > 0:
                share = dv / v
                taken = {k: a * share for k, a in comp.items()}
                self.comp[idx] = {k: a - taken[k] for k, a in comp.items()}
            else:
                taken = {}
        self.vol[idx] = v - dv
        return taken

    def add(self, idx, dv, amounts):
        """amounts: component -> Fraction amount (summing to dv) or None for unknown composition."""
        dv = Fraction(dv)
        self.vol[idx] += dv
        if dv == 0:
            return
        if amounts is None:
            # liquid of unknown composition: the well's composition is unknown from now on
            self.comp[idx] = None
            return
        if self.comp[idx] is None:
            return
        tgt = self.comp[idx]
        for k, a in amounts.items():
            tgt[k] = tgt.get(k, 0) + a

    def copy_state(self):
        return dict(self.vol)


def close(a, b, rel=1e-9, abs_=1e-9):
    a, b = float(a), float(b)
    return abs(a - b) <= max(abs_, rel * max(abs(a), abs(b)))


def decide_add(v_real, dv, vmax):
    """Three-valued limit decision for adding dv to a well holding v_real (floats): accept/refuse/either."""
    fl = v_real + dv
    if math.isinf(dv) or math.isnan(dv):
        return "refuse" if fl > vmax else "either"
    ex = Fraction(v_real) + Fraction(dv)
    ex_bad = ex > Fraction(vmax)
    fl_bad = fl > vmax
    if ex_bad and fl_bad:
        return "refuse"
    if not ex_bad and not fl_bad:
        return "accept"
    return "either"


def decide_remove(v_real, dv, vmin):
    fl = v_real - dv
    if math.isinf(dv) or math.isnan(dv):
        return "refuse" if fl < vmin else "either"
    ex = Fraction(v_real) - Fraction(dv)
    ex_bad = ex < Fraction(vmin)
    fl_bad = fl < vmin
    if ex_bad and fl_bad:
        return "refuse"
    if not ex_bad and not fl_bad:
        return "accept"
    return "either"
