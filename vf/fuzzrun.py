"""Parent side of the atheris campaigns: spawns `python -m vf.fuzz` and merges its statistics."""
import json
import os
import shutil
import subprocess
import sys
import tempfile

from . import ROOT


def campaign(pid, tier, seed, shard, nshards, st, known, runs, seeds_corpus=None):
    """Runs one libFuzzer campaign of `runs` executions in this shard (thorough tier only)."""
    if tier != "thorough" or runs <= 0:
        return
    try:
        import importlib.util

        if importlib.util.find_spec("atheris") is None:
            st.notes.append("atheris not importable: fuzz campaign skipped")
            return
    except Exception:
        st.notes.append("atheris not importable: fuzz campaign skipped")
        return
    tmp = tempfile.mkdtemp(prefix=f"vf_fuzz_{pid}_")
    try:
        stats = os.path.join(tmp, "stats.json")
        replay = os.path.join(tmp, "replay.json")
        corpus = os.path.join(tmp, "corpus")
        os.makedirs(corpus)
        # even shards start from an empty corpus, odd shards from a few small valid inputs
        if shard % 2 == 1 and seeds_corpus:
            for i, blob in enumerate(seeds_corpus):
                with open(os.path.join(corpus, f"seed{i}"), "wb") as fh:
                    fh.write(blob)
        cmd = [sys.executable, "-W", "ignore", "-m", "vf.fuzz", pid, stats, replay, f"-runs={runs}", f"-seed={seed * 1000 + shard + 1}", "-max_len=256", "-print_final_stats=0", corpus]
        env = dict(os.environ)
        r = subprocess.run(cmd, cwd=ROOT, env=env, capture_output=True, text=True)
        data = json.load(open(stats)) if os.path.exists(stats) else {"evaluations": 0, "nontrivial": [], "classes": {}, "samples": []}
        st.evaluations += data["evaluations"]
        st.units += data["evaluations"]
        st.parts["atheris"] += data["evaluations"]
        st.nontrivial |= set(data["nontrivial"])
        for c, n in data["classes"].items():
            st.classes["fuzz:" + c] += n
        for s in data["samples"][:1]:
            if len(st.samples) < 6:
                st.samples.append(s)
        if os.path.exists(replay):
            rep = json.load(open(replay))
            new = [tuple(v) for v in rep["violations"] if v[0] not in known]
            if new:
                st.failures.append({"case": rep["case"], "violations": new, "part": "atheris"})
        elif r.returncode != 0:
            from .core import HarnessError

            raise HarnessError(f"atheris campaign for {pid} ended with status {r.returncode}: {r.stderr[-1500:]}")
        st.notes.append(f"atheris campaign: -runs={runs} per shard, corpus {'seeded' if shard % 2 == 1 and seeds_corpus else 'empty'}")
    finally:
        shutil.rmtree(tmp, ignore_errors=True)
